"""Source table for MANIFEST.json (python3 tools_manifest.py regenerates it)."""
WIP = "checker under construction in this session (will be claimed or declared not applicable with its real reason)"
CLAIMED = {}

def claim(pid, engine, technique, level, note, ref):
    CLAIMED[pid] = dict(engine=engine, technique=technique, level=level, note=note, design_ref=ref)
    NOT_APPLICABLE.pop(pid, None)
NOT_APPLICABLE = {f"C{i:02d}": WIP for i in range(1, 19)}
NOT_APPLICABLE["C03"] = ("relation between an arbitrary dynamic call tree and an arbitrary selector tree, computed at run time by the "
                         "evolution of handler collections and accumulator forks; no sound static abstraction in reach bounds embeddings")
NOT_APPLICABLE["C07"] = ("quantifies over call trees and runtime data flow through Total accumulator forks; its only structural clause "
                         "(exit hook on every way out) is decided under C06 rule R06.1")
SOURCE_COMMITS = []

claim("C12", "P", "AST normal-form comparison tables + wrapper-guard agreement (syntactic dataflow)",
      "Decides structural clauses only: each stock comparison predicate is the single comparison its name states (holds for all "
      "integers by Python semantics), Range's rejection set and argument routing, one capture check wrapping intercept/trigger/close "
      "under one condition, check_captures universal over captured values. A necessary condition of the property, decided for all inputs; "
      "modulo arithmetic, throttle and end-to-end filtering are not decided.",
      "Trusted: Python comparison semantics; handlers are only invoked through the wrapped slots. Shapes outside the recognised normal forms give ANALYSIS-ERROR (exit 2), not a verdict.",
      "DESIGN.md section 6, C12")
claim("C15", "P", "constant-folded priority-tower sign matrix vs calibrated sign obligations; field/table agreement; interning dataflow",
      "Decides the structural facts the documented equivalences rest on (interning totality and immutability, init/clone/defaults field "
      "agreement, 67 load-bearing precedence sign obligations, action-table coverage, whitespace-insensitive lexer, focus = tag 1). "
      "The desugaring equalities of evaluator outputs themselves are not decided.",
      "Trusted: sign obligations validated by single-entry flips against the pinned parser (selftest/calibration); the operator-precedence loop consumes only the sign (checked structurally).",
      "DESIGN.md section 6, C15")
