"""Source table for MANIFEST.json (python3 tools_manifest.py regenerates it)."""
WIP = "checker under construction in this session (will be claimed or declared not applicable with its real reason)"
CLAIMED = {}

def claim(pid, engine, technique, level, note, ref):
    CLAIMED[pid] = dict(engine=engine, technique=technique, level=level, note=note, design_ref=ref)
    NOT_APPLICABLE.pop(pid, None)
NOT_APPLICABLE = {f"C{i:02d}": WIP for i in range(1, 19)}
SOURCE_COMMITS = ["746fd1a fix: undo the instrumentation counts when the new variant cannot be installed", "798314f fix: untool the functions of a selector that autotool ends up refusing", "f8603ba fix: roll back the tooling of earlier selectors when a later one is refused", "e29e1a9 fix: mark the cached instrumented variants as helper functions", "ceee686 fix: match the receiver of a bound-method selector by identity", "f362961 fix: serialize instrumentation changes between threads", "3d31492 fix: do not rewrite the bodies of nested classes, lambdas and async functions", "744a5c2 fix: rewrite the right-hand side of assignments too", "2a0cb7a fix: collect the names bound in except bodies and by match patterns", "466fe4b fix: report the name bound by a dotted import", "c1855a8 fix: do not bind the ABSENT marker to variables that are not instrumented", "40ebacf fix: report malformed selectors as syntax or selector errors", "26f5533 fix: refuse bound methods without a named receiver with a selector error", "914ba3a fix: do not treat the names of nested classes and async functions as externals",
                  "e89a480 fix: transform() no longer leaves '<function name> = None' in the module globals when the name was not a global (methods, nested functions)",
                  "1868cdf fix: report an absolute reference with a relative module part ('/.x/f') as an unresolvable reference",
                  "d2d4c05 fix: VKeyword objects with equal key and value compare equal",
                  "1282c41 fix: a /module/function reference to a module without a source file is refused with CodeNotFoundError",
                  "3eb52de fix: a parameter that the body rebinds keeps the provenance 'argument'",
                  "d9e7045 fix: keep the full instrumentation of a statically tooled function while probes are active"]

claim("C12", "P", "AST normal-form comparison tables + wrapper-guard agreement (syntactic dataflow)",
      "Decides for all integers (not a sample): each stock comparison predicate is the single comparison its name states, Range rejects exactly value<start / value>=end "
      "and with a modulus accepts iff value-start is divisible by it (integer-linear normal form modulo the modulus), argument routing of every/between; and structurally: one capture check "
      "wraps intercept/trigger/close under one condition, check_captures is universal over captured values. throttle and end-to-end filtering are not decided.",
      "Trusted: Python comparison semantics; handlers are only invoked through the wrapped slots. Shapes outside the recognised normal forms give ANALYSIS-ERROR (exit 2), not a verdict.",
      "DESIGN.md section 6, C12")
claim("C15", "P", "constant-folded priority-tower sign matrix vs calibrated sign obligations; field/table agreement; interning dataflow",
      "Decides the structural facts the documented equivalences rest on (interning totality and immutability, init/clone/defaults field "
      "agreement, 67 load-bearing precedence sign obligations, action-table coverage, whitespace-insensitive lexer, focus = tag 1). "
      "The desugaring equalities of evaluator outputs themselves are not decided.",
      "Trusted: sign obligations validated by single-entry flips against the pinned parser (selftest/calibration); the operator-precedence loop consumes only the sign (checked structurally).",
      "DESIGN.md section 6, C15")

claim("C05", "P", "acquire/release pairing on a statement CFG with exception edges (must-pass-through), ContextVar token typestate, who-calls analysis",
      "Decides structural clauses: rollback of every acquire on exception edges, inverse pairing of enter/exit-like methods (same guard, same token, inverse "
      "counter updates, code re-install after each counter change), LIFO-only use of ContextVar tokens (public non-with entry points are reported), base code "
      "iff instrument_count == 0, activation extends the current collection, one stack per function. Necessary conditions of C05 for every history; "
      "exactly-once delivery itself is a runtime fact and is not decided.",
      "Trusted: external calls outside callgraph.EXTERNAL_RAISES do not raise; context managers do not swallow exceptions. Known finding: non-LIFO deactivation of global probes (token discipline).",
      "DESIGN.md section 6, C05")
claim("C17", "P", "dominance / must-pass-through on the CFG of Probe._enter/_exit, who-may-call sets, dependency summary re-derived from the installed giving source",
      "Decides: the single-activation guard dominates all acquisitions and its refusing branch acquires nothing; the flag is set on success and never cleared; "
      "_exit releases what _enter acquired; only the emitters push; ptera never completes observers; SourceProxy.__exit__ completes once, clears, then calls _exit; "
      "atexit completion of global probes. Results of reductions and late-subscriber behaviour inside reactivex are not decided.",
      "Trusted: giving.gvn.SourceProxy as installed (re-read and matched structurally on every run); reactivex semantics of on_completed.",
      "DESIGN.md section 6, C17")

claim("C14", "P", "dominance of the registry update over every __code__ store (CFG), escape-to-long-lived-store analysis for helper function objects, builder/resolver table agreement",
      "Decides the per-swap invariant behind C14 for every history: registry updated before every code swap with matching arguments; every ptera-made function "
      "object that shares or lends a code object is marked __ptera_discard__ before it is kept, the user's function never; refstring builder and resolver are inverse "
      "on their separators and use the same lookup. Histories of activate/resolve and codefind itself are not decided.",
      "Trusted: codefind.registry semantics as read from the installed source; _Conformer.__conform__ (hot patching) is listed out of scope, not judged.",
      "DESIGN.md section 6, C14")

claim("C13", "P", "taint analysis from the bound method's receiver to hash / equality sinks (intern-table key, ==/in comparisons), plus resolver shape rules",
      "Decides for every receiver kind at once: the receiver object of an obj.meth selector is only ever compared by identity (never hashed, never ==-compared), the "
      "constrained parameter name comes from the resolved function's signature, only bound methods get the constraint, and resolution unwraps __wrapped__/property/dotted paths. "
      "Per-call delivery across populations of instances is a runtime fact and is not decided.",
      "Trusted: Python semantics of dict membership (hash + ==) and of default __eq__/__hash__ (identity).",
      "DESIGN.md section 6, C13")

claim("C08", "P", "lockset analysis over the resolved call graph (locks held on every call path to each shared-state write), who-may-write / immutability rules for context-local handler state",
      "Decides a sufficient locking discipline and the locality of handler state, for every schedule at once: every write, read-modify-write and check-then-act on "
      "process-shared instrumentation state reachable from activate / call entry / deactivate holds one common lock on every call path; handlers live only in a ContextVar, "
      "published collections are immutable, templates are forked per call. It does not explore interleavings, and a correct lock-free redesign would be flagged.",
      "Trusted: CPython atomicity of single dict/set stores and itertools.count; exemption table EXEMPT in sa/rules/c08.py (one reason per symbol). Concurrent callers during transform()'s exec window are not covered.",
      "DESIGN.md section 6, C08")

claim("C01", "T", "abstract interpretation of the AST-builder code over a term domain (output templates with symbolic instrumentation choices); template queries: slot linearity/order, synthesised-operation whitelist, handler/finally shape, scope and declaration rules",
      "Decides necessary structural conditions of transparency for every program, every grammar-legal target shape and every instrumentation subset at once (the template does not depend on "
      "the program): each payload slot evaluated exactly once in language order inside the original construct; no synthesised operation on user values; synthesised handlers re-raise; scope hygiene; "
      "declaration order; target-shape totality; closure cells shared. Observational equality itself is not claimed. Eight genuine defects of the pinned tree are listed as known findings with inputs.",
      "Trusted: CPython's NodeTransformer dispatch/splicing and evaluation order table; interact returns its argument when nothing intercepts (C04). Builder code outside the interpreted subset gives ANALYSIS-ERROR.",
      "DESIGN.md sections 3 and 6, C01")

claim("C06", "T+P", "template queries on the abstract-interpretation output (nesting of With/Try/finally/handler and position of the meta interactions on every path), literal-table agreement",
      "Decides the bracket structure of the emitted code for all programs and all control-flow paths at once: function body inside with-proceed and a try whose first statement is #enter, "
      "whose handler catches BaseException, reports #error and re-raises, and whose finally is #exit; per-iteration try/finally with #loop/#endloop; shape of return/yield rewriting; no unvisited "
      "expression slot; meta-name/tag tables agree across emitting sites, _standard_info, verification and fitting. Two genuine defects (no #value on fall-through; double #value when a finally returns) are known findings.",
      "Trusted: Python's try/finally/with semantics (finally runs on every way out, including generator close). Event values and counts at run time are not decided.",
      "DESIGN.md section 6, C06")

claim("C10", "T+P", "effect-table extraction of the name collector (which handler records which identifier, which child fields it traverses) decided against a Python binding table validated by ast ASDL + symtable; CFG must-call rules on the refusal path",
      "Decides, per syntactic binding construct (hence for every program), whether the collector records the bound name with the provenance Python's scoping implies and keeps nested scopes out; "
      "the provenance algebra; and that verification is reached before activation counts, raises iff problems, and covers every documented refusal. The oracle (symtable of this interpreter) "
      "is consulted on 3-line snippets, never on ptera. Nine genuine disagreements are listed as known findings.",
      "Trusted: symtable/ASDL of the running interpreter (rows failing validation give ANALYSIS-ERROR). The collector is read, not run: handler effects are matched syntactically (self.assigned.add(...), self.provenance[...] = literal, generic_visit / visit calls, helper methods inlined).",
      "DESIGN.md section 6, C10")

claim("C02", "T+P", "template queries (binding-site coverage against the collector's accept set, adjacency/order of interactions, unvisited slots, symbol/target agreement) and CFG ordering rules on Interactor.interact and the accumulators",
      "Decides, for all programs and instrumentation subsets, that each listed binding form the collector accepts is rewritten into an adjacent interact on that very name, that nothing else is "
      "reported, that no slot able to hold a binding is skipped, and that interact intercepts, guards, logs the value it returns and triggers once, handing snapshots to callbacks. "
      "Event values at run time are not decided. Five genuine gaps (with-target, list target, walrus in store-target sub-expressions x2, keyed-target naming) are known findings.",
      "Trusted: engine T base (see C01); the collector effect table (see C10).",
      "DESIGN.md section 6, C02")

claim("C04", "T+P", "template queries (value slot evaluated once, every overridable interaction consumed by its store/return/yield, overridable flags) and reaching-definition / ordering rules on Interactor.interact, WorkingFrame.intercept and the collection builders",
      "Decides for all programs, binding forms and instrumentation subsets that the right-hand side is evaluated once, that what is stored / returned / yielded is the interact result, that closure variables "
      "are reported read-only and an override attempt raises before anything is logged, that a declining override leaves the value untouched, that the last answering handler wins and that handlers are only ever "
      "appended in activation order. Equivalence with a substituted twin program is not decided.",
      "Trusted: engine T base (see C01).",
      "DESIGN.md section 6, C04")
claim("C16", "T+P", "taint analysis of the ABSENT marker: sources/sinks/sanitiser on the output templates, dominance of the raising guard in Interactor.interact (CFG), use-classification of the marker in the runtime modules",
      "Decides for all programs, paths and instrumentation subsets that a term that may evaluate to the marker reaches user code only as the value argument of interact, where the guard "
      "`value is ABSENT -> raise PteraNameError(varname, fn)` dominates log, trigger and return; that run-time marker values only flow into identity tests; and where the marker-capable lookup is interacted. "
      "One genuine deviation (externals are interacted eagerly at entry) is a known finding.",
      "Trusted: engine T base (see C01); DictPile(default=ABSENT) is the only defaulting lookup (checked).",
      "DESIGN.md section 6, C16")

claim("C09", "T+P", "ContextVar token typestate on proceed.__enter__/__exit__ combined with template nesting facts (user yields emitted inside `with proceed(...)` without suspend/resume bracketing)",
      "Decides the single structural cause behind all histories of C09: the activation's ContextVar modification is held across the whole with-block, and user yields stay real suspension points "
      "inside it with nothing restoring the caller's collection. On the pinned tree this is a genuine defect (known finding with a concrete history); the check also guards that the token is only reset "
      "at activation exit. The individual next/close/drop histories are not explored.",
      "Trusted: ContextVar semantics (a generator runs in its caller's context); engine T base (see C01).",
      "DESIGN.md section 6, C09")
claim("C11", "T+P", "decision-table extraction (path enumeration over tag kinds) of match_tag/check_element, template queries for annotation routing, one-predicate and set-semantics shape rules",
      "Decides the matching rule as a table for all tag kinds, the routing of annotations to every interaction for all programs (parameters and annotated assignments carry their annotation, "
      "other bindings None), that one predicate decides instrumentation, delivery, fitting and verification, and the set algebra of tag sets. Which variables a user function tags is runtime (eval of annotations).",
      "Trusted: engine T base (see C01). Shares the keyed-target naming finding with C02.",
      "DESIGN.md section 6, C11")

claim("C18", "P", "exception-escape analysis over the resolved call graph (assert / raise / raising external calls / unguarded index and unpack sites reachable from parse, select, Probe()), flow-sensitive operand-kind analysis of the evaluation actions, refusal-path rules, loop variants",
      "Decides for every input string at once that no internal error class can escape the selector front end: each reachable assert, undocumented raise, raising external call and index/unpack site is absent, "
      "caught, locally guarded, or carries a one-line infeasibility reason; every attribute used on an evaluated operand exists on all operand kinds still possible at that point; the documented refusals are on "
      "the construction / activation path. Termination is argued by loop variants only.",
      "Trusted: callee resolution (statistics in the evidence); external calls outside EXTERNAL_RAISES do not raise on selector input; exceptions from user functions inside selector values are out of scope.",
      "DESIGN.md section 6, C18")

claim("C03", "P", "shape rules on the matching step (HandlerCollection.proceed / fits_selector / proceed.__enter__/__exit__): guard conditions of the keep / push / fork / register statements, memo protocol, token agreement",
      "PARTIAL BY DESIGN: the property relates arbitrary dynamic call trees to selector trees and that relation is NOT decided (no static abstraction in reach counts embeddings). Decided are four structural necessary "
      "conditions of the per-call matching step, each of which changes which events fire when broken: pending selectors kept unless immediate and independently of the fit; children pushed only on fit, paired with this "
      "embedding's accumulator which is forked on focus/template; the static fit rule and its memo; entry installs / exit restores the collection with one token.",
      "Trusted: interning of selectors (C15) for the memo key. The verdict says nothing about the number of embeddings for a concrete call stack or about sibling-value attribution.",
      "DESIGN.md section 7 and 11.6")
claim("C07", "T+P", "CFG must-call rules on proceed.__exit__ / Interactor.exit, guard-condition rules on register / fork / Total.close, template fact that the body sits inside with-proceed",
      "PARTIAL BY DESIGN: attribution of values to outermost calls over arbitrary call trees is runtime data flow and is NOT decided. Decided are the structural necessary conditions: the close hook runs on every way out "
      "of an activation; an accumulator is registered for closing exactly at the outermost match (template flag read before the fork); Total accumulates and never overwrites; a record is emitted from the root only, per leaf, "
      "iff the captured names equal the required names; a focused element forks the accumulator.",
      "Trusted: engine T base (see C01). The verdict says nothing about which values end up in which record for a concrete program.",
      "DESIGN.md section 7 and 11.6")
