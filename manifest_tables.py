"""Source table for MANIFEST.json (python3 tools_manifest.py regenerates it)."""
WIP = "checker under construction in this session (will be claimed or declared not applicable with its real reason)"
CLAIMED = {}
NOT_APPLICABLE = {f"C{i:02d}": WIP for i in range(1, 19)}
NOT_APPLICABLE["C03"] = ("relation between an arbitrary dynamic call tree and an arbitrary selector tree, computed at run time by the "
                         "evolution of handler collections and accumulator forks; no sound static abstraction in reach bounds embeddings")
NOT_APPLICABLE["C07"] = ("quantifies over call trees and runtime data flow through Total accumulator forks; its only structural clause "
                         "(exit hook on every way out) is decided under C06 rule R06.1")
SOURCE_COMMITS = []
