#!/bin/bash
# development aid: every thorough check once, three at a time (each uses VERIF_JOBS workers); prints the summary line and exit code of each
cd "$(dirname "$0")/.."
export VERIF_JOBS=${VERIF_JOBS:-5}
run_lane() {
  for i in "$@"; do
    out=$(./check C$i --tier thorough 2>&1); rc=$?
    echo "C$i rc=$rc $(echo "$out" | tail -1)"
    [ $rc -ne 0 ] && echo "$out" | grep -v "^KNOWN-FINDING" | tail -15
  done
}
run_lane 01 04 09 12 15 18 > /tmp/thor_lane1.$$ 2>&1 &
run_lane 02 07 10 13 16 05 > /tmp/thor_lane2.$$ 2>&1 &
run_lane 03 06 11 08 14 17 > /tmp/thor_lane3.$$ 2>&1 &
wait
cat /tmp/thor_lane1.$$ /tmp/thor_lane2.$$ /tmp/thor_lane3.$$
rm -f /tmp/thor_lane?.$$
if cat /dev/null; then :; fi
