#!/bin/sh
# usage: selftest/try_refactor.sh <patch.diff>...   -- apply each patch to a scratch copy of /repo/ptera and run every quick check (must stay silent)
for patch in "$@"; do
  d=$(mktemp -d /tmp/rf_XXXX); cp -r /repo/ptera $d/ptera
  if ! (cd $d && patch -p1 -s < $patch) ; then echo "PATCH-MISS $patch"; rm -rf $d; continue; fi
  fired=""
  for p in C01 C02 C03 C04 C05 C06 C07 C08 C09 C10 C11 C12 C13 C14 C15 C16 C17 C18; do
    out=$(VERIF_NO_EVIDENCE=1 VERIF_OUT=$d ./check $p --repo $d 2>&1); rc=$?
    if [ $rc -ne 0 ]; then fired="$fired $p($rc)"; echo "$out" | grep -E "key:|ANALYSIS-ERROR" | head -3 | sed "s|^|    $p |"; fi
  done
  echo "$(basename $(dirname $patch))/$(basename $patch): ${fired:-silent}"
  rm -rf $d
done
