#!/usr/bin/env python3
"""Development tool (not a check): stacked refactorings.  Each behaviour-preserving rewrite of selftest/refactors is replayed alone by
selftest/run.py; a maintainer's history stacks them.  This tool applies random PAIRS (and triples with --k 3) of rewrites that apply on top of
each other to a scratch copy and runs every rule module (sa.allprops, strict obligation inventory) on the result: the passes of the normal form
must compose.  Any check that fires, errs or loses an obligation on a stack is printed.

usage: selftest/compose.py [--n 300] [--k 2] [--seed 1] [--jobs 12]
Scratch copies live under $TMPDIR and are removed as soon as a stack is done.
"""
import argparse, glob, json, os, random, shutil, subprocess, sys, tempfile
from concurrent.futures import ThreadPoolExecutor

HERE = os.path.dirname(os.path.abspath(__file__))
VERIF = os.path.dirname(HERE)
REPO = os.environ.get("VP_RUN_REPO") or os.environ.get("VERIF_REPO", "/repo")


def files_of(patch):
    return {l.split(" b/")[-1].strip() for l in open(patch) if l.startswith("diff --git")}


def one(stack):
    d = tempfile.mkdtemp(prefix="cmp_")
    try:
        shutil.copytree(os.path.join(REPO, "ptera"), os.path.join(d, "ptera"))
        for p in stack:
            r = subprocess.run(["patch", "-p1", "-s", "--no-backup-if-mismatch", "-F0", "-d", d, "-i", p], capture_output=True, text=True)
            if r.returncode:
                return stack, "skip", ""
        env = dict(os.environ, VERIF_STRICT_INVENTORY="1", VERIF_OUT=d)
        r = subprocess.run(["/venv/bin/python" if os.path.exists("/venv/bin/python") else sys.executable, "-B", "-m", "sa.allprops", d], cwd=VERIF, env=env, capture_output=True, text=True)
        bad = []
        cur = None
        for line in r.stdout.splitlines():
            if line.startswith("== "):
                cur = line.split()[1]
                if not line.endswith("rc=0"):
                    bad.append(line[3:])
            elif cur and ("key:" in line or "ANALYSIS-ERROR" in line) and bad and bad[-1].startswith(cur):
                bad.append("    " + line.strip()[:200])
        return stack, ("fired" if bad else "silent"), "\n".join(bad)
    finally:
        shutil.rmtree(d, ignore_errors=True)


def main():
    ap = argparse.ArgumentParser()
    ap.add_argument("--n", type=int, default=300)
    ap.add_argument("--k", type=int, default=2)
    ap.add_argument("--seed", type=int, default=1)
    ap.add_argument("--jobs", type=int, default=12)
    a = ap.parse_args()
    limits = set(json.load(open(os.path.join(HERE, "refactors", "LIMITS.json"))))
    patches = [p for p in sorted(glob.glob(os.path.join(HERE, "refactors", "*.diff"))) if os.path.basename(p)[:-5] not in limits]
    by_file = {}
    for p in patches:
        for f in files_of(p):
            by_file.setdefault(f, []).append(p)
    rnd = random.Random(a.seed)
    stacks = set()
    files = sorted(by_file)
    guard = 0
    while len(stacks) < a.n and guard < a.n * 50:
        guard += 1
        f = rnd.choice(files)            # stacks that meet in one file are the interesting ones
        if len(by_file[f]) < a.k:
            continue
        st = tuple(rnd.sample(by_file[f], a.k))
        if len({os.path.basename(x)[:2] for x in st}) < 2 and rnd.random() < 0.5:
            continue                     # prefer rewrites from different rounds
        stacks.add(st)
    print(f"{len(stacks)} stacks of {a.k}", flush=True)
    counts = {"silent": 0, "fired": 0, "skip": 0}
    with ThreadPoolExecutor(a.jobs) as ex:
        for stack, status, detail in ex.map(one, sorted(stacks)):
            counts[status] += 1
            if status == "fired":
                print("FIRED", " + ".join(os.path.basename(x)[:-5] for x in stack))
                print(detail, flush=True)
    print(f"stacks: {counts}")
    return 1 if counts["fired"] else 0


if __name__ == "__main__":
    sys.exit(main())
