#!/usr/bin/env python3
"""Development tool (not a check): generate single-edit mutants of ptera, keep those that survive the baseline suite,
and report which of the registered checks fire on each survivor.  Survivors on which nothing fires are candidates for
triage (behaviour-preserving, or a gap in the rules).

usage: selftest/mutsweep.py [--modules transform,interpret,...] [--jobs N] [--limit N] [--out FILE]
Scratch copies live under $TMPDIR and are removed as soon as a mutant is done.
"""
import argparse, ast, json, os, random, shutil, subprocess, sys, tempfile
from concurrent.futures import ThreadPoolExecutor

HERE = os.path.dirname(os.path.abspath(__file__))
VERIF = os.path.dirname(HERE)
REPO = os.environ.get("VP_RUN_REPO") or os.environ.get("VERIF_REPO", "/repo")
CHECKS = sorted(f[:-3].upper() for f in os.listdir(os.path.join(VERIF, "sa", "rules")) if f.startswith("c") and f.endswith(".py"))

CMP = {ast.Lt: ast.LtE, ast.LtE: ast.Lt, ast.Gt: ast.GtE, ast.GtE: ast.Gt, ast.Eq: ast.NotEq, ast.NotEq: ast.Eq, ast.Is: ast.IsNot, ast.IsNot: ast.Is,
       ast.In: ast.NotIn, ast.NotIn: ast.In}


def mutants_of(src, module):
    """Yield (description, new source) for single edits, computed on the AST and applied to the text by line/col spans."""
    tree = ast.parse(src)
    lines = src.splitlines(keepends=True)

    def span(n):
        return (n.lineno, n.col_offset, n.end_lineno, n.end_col_offset)

    def replace(n, text):
        l1, c1, l2, c2 = span(n)
        out = list(lines)
        if l1 == l2:
            out[l1 - 1] = out[l1 - 1][:c1] + text + out[l1 - 1][c2:]
        else:
            out[l1 - 1] = out[l1 - 1][:c1] + text + out[l2 - 1][c2:]
            del out[l1:l2]
        return "".join(out)
    for fn in ast.walk(tree):
        if not isinstance(fn, (ast.FunctionDef,)):
            continue
        for n in ast.walk(fn):
            where = f"{module}.{fn.name}:{getattr(n, 'lineno', 0)}"
            if isinstance(n, ast.Compare) and len(n.ops) == 1 and type(n.ops[0]) in CMP:
                new = ast.Compare(left=n.left, ops=[CMP[type(n.ops[0])]()], comparators=n.comparators)
                yield f"{where} cmp {ast.unparse(n)} -> {ast.unparse(new)}", replace(n, ast.unparse(new))
            if isinstance(n, ast.If) and not isinstance(n.test, ast.Constant):
                yield f"{where} negate-if {ast.unparse(n.test)[:50]}", replace(n.test, f"not ({ast.unparse(n.test)})")
            if isinstance(n, ast.Constant) and isinstance(n.value, bool):
                yield f"{where} bool {n.value} -> {not n.value}", replace(n, repr(not n.value))
            if isinstance(n, ast.BoolOp):
                new = ast.BoolOp(op=ast.Or() if isinstance(n.op, ast.And) else ast.And(), values=n.values)
                yield f"{where} boolop {ast.unparse(n)[:50]}", replace(n, ast.unparse(new))
            if isinstance(n, (ast.Expr, ast.Assign, ast.AugAssign)) and isinstance(getattr(n, "_parent_body", None), list) is False:
                pass
        # statement-level edits inside this function
        for holder in ast.walk(fn):
            for field in ("body", "orelse", "finalbody"):
                body = getattr(holder, field, None)
                if not isinstance(body, list) or not body or not isinstance(body[0], ast.stmt):
                    continue
                for i, st in enumerate(body):
                    if isinstance(st, (ast.Expr, ast.Assign, ast.AugAssign)) and not (isinstance(st, ast.Expr) and isinstance(st.value, ast.Constant)):
                        indent = " " * st.col_offset
                        yield f"{module}.{fn.name}:{st.lineno} delete `{ast.unparse(st)[:60]}`", replace(st, "pass")
                    if i + 1 < len(body) and isinstance(st, (ast.Expr, ast.Assign)) and isinstance(body[i + 1], (ast.Expr, ast.Assign)) \
                            and st.lineno == st.end_lineno and body[i + 1].lineno == body[i + 1].end_lineno:
                        a, b = st, body[i + 1]
                        out = list(lines)
                        out[a.lineno - 1], out[b.lineno - 1] = out[b.lineno - 1], out[a.lineno - 1]
                        yield f"{module}.{fn.name}:{st.lineno} swap `{ast.unparse(a)[:40]}` <-> `{ast.unparse(b)[:40]}`", "".join(out)


def data_mutants_of(src, module):
    """Data-flow slips (one edit each): two adjacent positional arguments swapped, a local read replaced by another local of the same
    function, `self.a` read replaced by `self.b`, an integer literal off by one, `not` dropped, a keyword argument dropped."""
    tree = ast.parse(src)
    lines = src.splitlines(keepends=True)

    def replace(n, text):
        l1, c1, l2, c2 = n.lineno, n.col_offset, n.end_lineno, n.end_col_offset
        out = list(lines)
        if l1 == l2:
            out[l1 - 1] = out[l1 - 1][:c1] + text + out[l1 - 1][c2:]
        else:
            out[l1 - 1] = out[l1 - 1][:c1] + text + out[l2 - 1][c2:]
            del out[l1:l2]
        return "".join(out)
    self_attrs = {}
    for c in ast.walk(tree):
        if isinstance(c, ast.ClassDef):
            names = sorted({a.attr for f in c.body if isinstance(f, ast.FunctionDef) and f.name == "__init__" for a in ast.walk(f)
                            if isinstance(a, ast.Attribute) and isinstance(a.value, ast.Name) and a.value.id == "self" and isinstance(a.ctx, ast.Store)})
            for f in c.body:
                if isinstance(f, ast.FunctionDef):
                    self_attrs[f] = names
    for fn in ast.walk(tree):
        if not isinstance(fn, ast.FunctionDef):
            continue
        locs = sorted({a.arg for a in fn.args.args + fn.args.kwonlyargs if a.arg not in ("self", "cls")} |
                      {n.id for n in ast.walk(fn) if isinstance(n, ast.Name) and isinstance(n.ctx, ast.Store)})
        for n in ast.walk(fn):
            where = f"{module}.{fn.name}:{getattr(n, 'lineno', 0)}"
            if isinstance(n, ast.Call):
                pos = [a for a in n.args if not isinstance(a, ast.Starred)]
                if len(pos) == len(n.args):
                    for i in range(len(pos) - 1):
                        a, b = pos[i], pos[i + 1]
                        if a.lineno == a.end_lineno == b.lineno == b.end_lineno and ast.unparse(a) != ast.unparse(b):
                            ln = lines[a.lineno - 1]
                            new_ln = ln[:a.col_offset] + ln[b.col_offset:b.end_col_offset] + ln[a.end_col_offset:b.col_offset] + ln[a.col_offset:a.end_col_offset] + ln[b.end_col_offset:]
                            out = list(lines)
                            out[a.lineno - 1] = new_ln
                            yield f"{where} swap-args {ast.unparse(n)[:60]} [{i}<->{i + 1}]", "".join(out)
                for k in n.keywords:
                    if k.arg and len(n.keywords) + len(n.args) >= 2 and k.value.lineno == k.value.end_lineno and isinstance(k.value, ast.Constant) is False:
                        pass
            if isinstance(n, ast.Name) and isinstance(n.ctx, ast.Load) and n.id in locs and len(locs) >= 2:
                alt = locs[(locs.index(n.id) + 1) % len(locs)]
                yield f"{where} name {n.id} -> {alt} in `{ast.unparse(getattr(n, '_p', n))[:40]}`", replace(n, alt)
            if isinstance(n, ast.Attribute) and isinstance(n.ctx, ast.Load) and isinstance(n.value, ast.Name) and n.value.id == "self":
                names = self_attrs.get(fn, [])
                if n.attr in names and len(names) >= 2:
                    alt = names[(names.index(n.attr) + 1) % len(names)]
                    yield f"{where} attr self.{n.attr} -> self.{alt}", replace(n, f"self.{alt}")
            if isinstance(n, ast.Constant) and isinstance(n.value, int) and not isinstance(n.value, bool) and abs(n.value) <= 10:
                yield f"{where} int {n.value} -> {n.value + 1}", replace(n, repr(n.value + 1))
            if isinstance(n, ast.UnaryOp) and isinstance(n.op, ast.Not):
                yield f"{where} drop-not {ast.unparse(n)[:50]}", replace(n, "(" + ast.unparse(n.operand) + ")")


def value_mutants_of(src, module):
    """Value slips (one edit each): a keyword argument dropped, a copy removed (list(x) / x.copy() / dict(x) / set(x) / [*x] -> x), one operand of a
    binary operation dropped, the two arms of a conditional expression swapped, a string literal replaced by another literal of the same
    function that looks alike (both start with '#', or both are identifiers), a returned value dropped."""
    tree = ast.parse(src)
    lines = src.splitlines(keepends=True)

    def replace(n, text):
        l1, c1, l2, c2 = n.lineno, n.col_offset, n.end_lineno, n.end_col_offset
        out = list(lines)
        if l1 == l2:
            out[l1 - 1] = out[l1 - 1][:c1] + text + out[l1 - 1][c2:]
        else:
            out[l1 - 1] = out[l1 - 1][:c1] + text + out[l2 - 1][c2:]
            del out[l1:l2]
        return "".join(out)

    def seg(n):
        return ast.get_source_segment(src, n)
    for fn in ast.walk(tree):
        if not isinstance(fn, ast.FunctionDef):
            continue
        docs = {id(b.value) for b in ast.walk(fn) if isinstance(b, ast.Expr) and isinstance(b.value, ast.Constant)}
        strs = sorted({n.value for n in ast.walk(fn) if isinstance(n, ast.Constant) and isinstance(n.value, str) and id(n) not in docs and 0 < len(n.value) < 20
                       and not any(isinstance(p, ast.JoinedStr) for p in ast.walk(fn) if n in getattr(p, "values", []))})
        for n in ast.walk(fn):
            where = f"{module}.{fn.name}:{getattr(n, 'lineno', 0)}"
            if isinstance(n, ast.Call):
                for k in n.keywords:
                    if k.arg and len(n.args) + len(n.keywords) >= 1:
                        rest = [seg(a) for a in n.args] + [f"{q.arg}={seg(q.value)}" if q.arg else f"**{seg(q.value)}" for q in n.keywords if q is not k]
                        if all(r is not None for r in rest) and seg(n.func):
                            yield f"{where} drop-kw {k.arg} in {ast.unparse(n)[:50]}", replace(n, f"{seg(n.func)}({', '.join(rest)})")
                f = n.func
                if isinstance(f, ast.Name) and f.id in ("list", "dict", "set", "tuple", "frozenset", "sorted", "deepcopy") and len(n.args) == 1 and not n.keywords and seg(n.args[0]):
                    yield f"{where} uncopy {ast.unparse(n)[:50]}", replace(n, "(" + seg(n.args[0]) + ")")
                if isinstance(f, ast.Attribute) and f.attr in ("copy", "snapshot") and not n.args and not n.keywords and seg(f.value):
                    yield f"{where} uncopy {ast.unparse(n)[:50]}", replace(n, "(" + seg(f.value) + ")")
            if isinstance(n, ast.BinOp) and isinstance(n.op, (ast.Add, ast.Sub, ast.BitOr, ast.BitAnd)) and seg(n.left) and seg(n.right):
                yield f"{where} drop-right {ast.unparse(n)[:50]}", replace(n, "(" + seg(n.left) + ")")
                yield f"{where} drop-left {ast.unparse(n)[:50]}", replace(n, "(" + seg(n.right) + ")")
            if isinstance(n, ast.IfExp) and seg(n.body) and seg(n.orelse) and seg(n.test):
                yield f"{where} swap-arms {ast.unparse(n)[:50]}", replace(n, f"({seg(n.orelse)} if {seg(n.test)} else {seg(n.body)})")
            if isinstance(n, ast.Constant) and isinstance(n.value, str) and n.value in strs and id(n) not in docs:
                like = [t for t in strs if t != n.value and (t.startswith("#") == n.value.startswith("#")) and (t.isidentifier() == n.value.isidentifier())]
                if like:
                    alt = like[(like.index(min(like, key=lambda t: (t < n.value, t))))]
                    yield f"{where} str {n.value!r} -> {alt!r}", replace(n, repr(alt))
            if isinstance(n, ast.Return) and n.value is not None and not (isinstance(n.value, ast.Constant) and n.value.value is None):
                yield f"{where} return-none {ast.unparse(n)[:50]}", replace(n, "return None")
            # regular expressions (lexer tables, literal classifiers): one quantifier / class member changed
            if False and isinstance(n, ast.Constant) and isinstance(n.value, str) and id(n) not in docs and any(t in n.value for t in ("\\s", "[", "(?:", "\\b", "\\.")) and len(n.value) < 120:
                rx = n.value
                cands = []
                for i, ch in enumerate(rx):
                    if ch == "*" and (i == 0 or rx[i - 1] != "\\"):
                        cands.append((f"* -> ? at {i}", rx[:i] + "?" + rx[i + 1:]))
                        cands.append((f"* -> + at {i}", rx[:i] + "+" + rx[i + 1:]))
                    elif ch == "+" and (i == 0 or rx[i - 1] != "\\"):
                        cands.append((f"+ -> * at {i}", rx[:i] + "*" + rx[i + 1:]))
                    elif ch == "?" and i > 0 and rx[i - 1] not in "\\(":
                        cands.append((f"? dropped at {i}", rx[:i] + rx[i + 1:]))
                for what, new_rx in cands[:12]:
                    try:
                        import re as _re
                        _re.compile(new_rx)
                    except Exception:
                        continue
                    yield f"{where} regex {what} in {rx[:30]!r}", replace(n, ("r" if "\\" in new_rx and '"' not in new_rx else "") + ('"' + new_rx + '"' if "\\" in new_rx and '"' not in new_rx else repr(new_rx)))


def regex_mutants_of(src, module):
    """One quantifier of a regular-expression literal changed (anywhere in the module, the lexer table included)."""
    import re as _re
    tree = ast.parse(src)
    lines = src.splitlines(keepends=True)
    for n in ast.walk(tree):
        if not (isinstance(n, ast.Constant) and isinstance(n.value, str) and n.lineno == n.end_lineno and len(n.value) < 160
                and any(t in n.value for t in ("\\s", "(?:", "\\b", "\\.", "[0-9]", "[a-z"))):
            continue
        rx = n.value
        cands = []
        for i, ch in enumerate(rx):
            esc = i > 0 and rx[i - 1] == "\\"
            if ch == "*" and not esc:
                cands += [(f"* -> ? at {i}", rx[:i] + "?" + rx[i + 1:]), (f"* -> + at {i}", rx[:i] + "+" + rx[i + 1:])]
            elif ch == "+" and not esc:
                cands += [(f"+ -> * at {i}", rx[:i] + "*" + rx[i + 1:])]
            elif ch == "?" and i > 0 and not esc and rx[i - 1] != "(":
                cands += [(f"? dropped at {i}", rx[:i] + rx[i + 1:])]
        for what, new_rx in cands:
            try:
                _re.compile(new_rx)
            except Exception:
                continue
            lit = 'r"' + new_rx + '"' if '"' not in new_rx else "r'" + new_rx + "'"
            if "'" in new_rx and '"' in new_rx:
                lit = repr(new_rx)
            ln = lines[n.lineno - 1]
            out = list(lines)
            out[n.lineno - 1] = ln[:n.col_offset] + lit + ln[n.end_col_offset:]
            yield f"{module}:{n.lineno} regex {what} in {rx[:40]!r}", "".join(out)


def run_one(job):
    idx, module, desc, newsrc = job
    d = tempfile.mkdtemp(prefix="ptm_")
    try:
        shutil.copytree(os.path.join(REPO, "ptera"), d + "/ptera")
        shutil.copytree(os.path.join(REPO, "tests"), d + "/tests")
        open(f"{d}/ptera/{module}.py", "w").write(newsrc)
        try:
            compile(newsrc, module, "exec")
        except SyntaxError:
            return idx, desc, "invalid", {}
        env = dict(os.environ, PYTHONPATH=d, PYTHONDONTWRITEBYTECODE="1")
        try:
            r = subprocess.run(["/venv/bin/python", "-m", "pytest", "-q", "-x", "-p", "no:cacheprovider", "--timeout=60", "tests"], cwd=d, env=env,
                               capture_output=True, text=True, timeout=300)
        except subprocess.TimeoutExpired:
            return idx, desc, "timeout", {}
        if r.returncode != 0:
            return idx, desc, "killed", {}
        res = {}
        env2 = dict(os.environ, VERIF_NO_EVIDENCE="1", VERIF_OUT=d)
        c = subprocess.run(["/venv/bin/python", "-B", "-m", "sa.allprops", d], capture_output=True, text=True, env=env2, cwd=VERIF)
        cur, rc = None, 0
        for l in c.stdout.splitlines():
            if l.startswith("== "):
                cur, rc = l.split()[1], int(l.split("rc=")[1])
                if rc:
                    res[cur] = (rc, [])
            elif cur in res and (l.strip().startswith("key:") or "ANALYSIS-ERROR" in l) and len(res[cur][1]) < 3:
                res[cur][1].append(l.strip()[5:] if l.strip().startswith("key:") else l)
        return idx, desc, "survives", res
    finally:
        shutil.rmtree(d, ignore_errors=True)


def main():
    ap = argparse.ArgumentParser()
    ap.add_argument("--modules", default="transform,interpret,overlay,probe,selector,opparse,tags,tools,utils")
    ap.add_argument("--jobs", type=int, default=14)
    ap.add_argument("--limit", type=int, default=0)
    ap.add_argument("--seed", type=int, default=int(os.environ.get("VERIF_SEED", "1") or 1))
    ap.add_argument("--out", default="mutsweep.json")
    ap.add_argument("--ops", default="control", help="control (comparison / branch / statement edits), data (argument, name, attribute, literal slips) or value (dropped keyword / copy / operand, swapped arms, look-alike strings, dropped return value)")
    a = ap.parse_args()
    jobs = []
    for m in a.modules.split(","):
        src = open(os.path.join(REPO, "ptera", f"{m}.py")).read()
        seen = set()
        for desc, new in {"control": mutants_of, "data": data_mutants_of, "value": lambda s_, m_: list(value_mutants_of(s_, m_)) + list(regex_mutants_of(s_, m_))}[a.ops](src, m):
            if new != src and new not in seen:
                seen.add(new)
                jobs.append((len(jobs), m, desc, new))
    if a.limit:
        random.Random(a.seed).shuffle(jobs)
        jobs = jobs[: a.limit]
    print(f"{len(jobs)} mutants", flush=True)
    out = []
    stats = {"invalid": 0, "killed": 0, "timeout": 0, "survives": 0, "survivors_caught": 0, "survivors_silent": 0, "survivors_analysis_error_only": 0}
    with ThreadPoolExecutor(a.jobs) as ex:
        for idx, desc, status, res in ex.map(run_one, jobs):
            stats[status] += 1
            if status == "survives":
                fired = sorted(p for p, (rc, _) in res.items() if rc == 1)
                errs = sorted(p for p, (rc, _) in res.items() if rc == 2)
                if fired:
                    stats["survivors_caught"] += 1
                elif errs:
                    stats["survivors_analysis_error_only"] += 1
                else:
                    stats["survivors_silent"] += 1
                out.append({"mutant": desc, "fired": fired, "errors": errs, "keys": {p: k for p, (rc, k) in res.items()}})
                print(("CAUGHT " if fired else "ERRONLY" if errs else "SILENT "), desc, fired, errs, flush=True)
    print(json.dumps(stats), flush=True)
    with open(a.out, "w") as f:
        json.dump({"stats": stats, "survivors": out}, f, indent=1)


if __name__ == "__main__":
    main()
