#!/usr/bin/env python3
"""Run the checks against every variant of the catalogue (scratch copies under $TMPDIR, removed afterwards).

usage: selftest/run.py [--props C12,C15] [--only name-substring] [--jobs N]
A variant passes when every property in `expect` reports a VIOLATION and every other implemented property exits 0.
"""
import argparse, importlib, json, os, shutil, subprocess, sys, tempfile
from concurrent.futures import ThreadPoolExecutor

HERE = os.path.dirname(os.path.abspath(__file__))
VERIF = os.path.dirname(HERE)
sys.path.insert(0, HERE)


def implemented():
    return sorted(f[:-3].upper() for f in os.listdir(os.path.join(VERIF, "sa", "rules")) if f.startswith("c") and f.endswith(".py"))


def run_variant(v, props, tier):
    d = tempfile.mkdtemp(prefix="ptv_")
    try:
        shutil.copytree("/repo/ptera", d + "/ptera")
        p = f"{d}/ptera/{v['file']}"
        s = open(p).read() if v["file"] else ""
        if v.get("patch"):
            r = subprocess.run(["patch", "-p1", "-d", d, "-i", os.path.join(VERIF, v["patch"])], capture_output=True, text=True)
            if r.returncode:
                return v["name"], "PATCH-MISS", r.stdout[-200:]
        else:
            edits = v.get("edits") or [(v["old"], v["new"])]
            for old, new in edits:
                if s.count(old) != 1:
                    return v["name"], "PATCH-MISS", f"{s.count(old)} occurrences of {old[:40]!r}"
                s = s.replace(old, new)
            open(p, "w").write(s)
        res = {}
        env = dict(os.environ, VERIF_NO_EVIDENCE="1", VERIF_OUT=d)
        if v.get("expect") == [] and v["name"].startswith("refactor:"):
            env["VERIF_STRICT_INVENTORY"] = "1"       # on a behaviour-preserving variant no obligation of the pinned tree may disappear
        if tier == "quick" and not os.environ.get("SELFTEST_SEPARATE"):
            # all properties in one process (sa/allprops.py: same rules, shared parse / call graph / templates)
            r = subprocess.run(["/venv/bin/python", "-B", "-m", "sa.allprops", d, ",".join(props)], capture_output=True, text=True, env=env, cwd=VERIF)
            cur = None
            for l in r.stdout.splitlines():
                if l.startswith("== "):
                    cur = l.split()[1]
                    res[cur] = (int(l.split("rc=")[1]), [])
                elif cur and l.startswith(("  ", "ANALYSIS-ERROR")) and len(res[cur][1]) < 6:
                    res[cur][1].append(l)
            for pid in props:
                if pid not in res:
                    res[pid] = (2, [f"ANALYSIS-ERROR property={pid} no result from sa.allprops: {r.stderr[-200:]}"])
            return v["name"], "RAN", res
        for pid in props:
            r = subprocess.run([os.path.join(VERIF, "check"), pid, "--repo", d, "--tier", tier], capture_output=True, text=True, env=env)
            res[pid] = (r.returncode, [l for l in r.stdout.splitlines() if l.startswith(("  ", "ANALYSIS-ERROR"))][:6])
        return v["name"], "RAN", res
    finally:
        shutil.rmtree(d, ignore_errors=True)


def main():
    ap = argparse.ArgumentParser()
    ap.add_argument("--props")
    ap.add_argument("--only")
    ap.add_argument("--jobs", type=int, default=14)
    ap.add_argument("--tier", default="quick")
    ap.add_argument("-v", action="store_true")
    a = ap.parse_args()
    import variants
    import glob
    seeded = []
    for mf in sorted(glob.glob(os.path.join(VERIF, "seeded", "*", "meta.json"))):
        m = json.load(open(mf))
        seeded.append(dict(name="seeded:" + m["id"], file="", expect=[m["breaks_property"]], patch=os.path.relpath(os.path.join(os.path.dirname(mf), "patch.diff"), VERIF)))
    limits = json.load(open(os.path.join(VERIF, "selftest", "refactors", "LIMITS.json")))
    for pf in sorted(glob.glob(os.path.join(VERIF, "selftest", "refactors", "*.diff"))):     # behaviour-preserving rewrites: every check must stay silent
        rid = os.path.basename(pf)[:-5]
        if rid in limits:       # a documented limit of the normal form: the named checks fail closed on this rewrite (DESIGN 12.5); reported, not counted
            seeded.append(dict(name="refactor-limit:" + rid, file="", expect=None, patch=os.path.relpath(pf, VERIF)))
            continue
        seeded.append(dict(name="refactor:" + rid, file="", expect=[], patch=os.path.relpath(pf, VERIF)))
    props = a.props.split(",") if a.props else implemented()
    vs = [v for v in variants.V + seeded if not a.only or a.only in v["name"]]
    bad = 0
    with ThreadPoolExecutor(a.jobs) as ex:
        for name, st, res in ex.map(lambda v: run_variant(v, props, a.tier), vs):
            v = next(x for x in vs if x["name"] == name)
            if st != "RAN":
                print(f"BROKEN   {name}: {st} {res}")
                bad += 1
                continue
            exp = v["expect"]
            fired = sorted(p for p, (rc, _) in res.items() if rc == 1)
            errs = sorted(p for p, (rc, _) in res.items() if rc not in (0, 1))
            if exp is None:
                verdict = "n/a     "
            else:
                want = sorted(p for p in exp if p in props)
                missed = [p for p in want if p not in fired]
                extra = [p for p in fired if p not in exp] if exp == [] else []
                if missed or extra or errs:
                    verdict = "FAIL    "
                    bad += 1
                else:
                    verdict = "ok      "
            print(f"{verdict}{name:36s} expect={exp} fired={fired} errors={errs}")
            if a.v or verdict.startswith("FAIL"):
                for p, (rc, lines) in res.items():
                    if rc:
                        for l in lines:
                            print("      ", p, l.strip()[:200])
    print("failures:", bad)
    return 1 if bad else 0


if __name__ == "__main__":
    sys.exit(main())
