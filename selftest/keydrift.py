#!/usr/bin/env python3
"""Development aid: for every behaviour-preserving refactoring of the corpus, which obligation keys of the unchanged tree are no longer
produced?  (An obligation that silently disappears is a rule gone blind; the inventory check in report.Check.finish turns that into an
ANALYSIS-ERROR -- this script measures how often benign refactors would trip it.)"""
import glob, json, os, shutil, subprocess, sys, tempfile
from concurrent.futures import ThreadPoolExecutor
HERE = os.path.dirname(os.path.abspath(__file__)); VERIF = os.path.dirname(HERE)
REPO = os.environ.get("VERIF_REPO", "/repo")


def keys_of(root):
    fd, path = tempfile.mkstemp(suffix=".jsonl"); os.close(fd)
    env = dict(os.environ, VERIF_DUMP_KEYS=path, VERIF_NO_EVIDENCE="1", VERIF_OUT=root, VERIF_KEY_INVENTORY="0")
    subprocess.run([sys.executable, "-B", "-m", "sa.allprops", root], cwd=VERIF, env=env, capture_output=True, text=True)
    out = {}
    for l in open(path):
        d = json.loads(l); out[d["pid"]] = (d["rc"], set(d["keys"]))
    os.unlink(path)
    return out


def one(patch):
    d = tempfile.mkdtemp(prefix="kd_")
    try:
        shutil.copytree(os.path.join(REPO, "ptera"), d + "/ptera")
        r = subprocess.run(["patch", "-p1", "-s", "-d", d, "-i", patch], capture_output=True, text=True)
        if r.returncode:
            return patch, None
        return patch, keys_of(d)
    finally:
        shutil.rmtree(d, ignore_errors=True)


def main():
    base = keys_of(REPO)
    patches = sorted(glob.glob(os.path.join(HERE, "refactors", "*.diff")))
    if len(sys.argv) > 1:
        patches = [p for p in patches if sys.argv[1] in os.path.basename(p)]
    tot = 0
    with ThreadPoolExecutor(int(os.environ.get("VERIF_JOBS", "8"))) as ex:
        for patch, ks in ex.map(one, patches):
            if ks is None:
                print("PATCH-MISS", patch); continue
            lost = {pid: sorted(base[pid][1] - ks.get(pid, (0, set()))[1]) for pid in base if ks.get(pid, (2, set()))[0] != 2}
            lost = {k: v for k, v in lost.items() if v}
            if lost:
                tot += 1
                print(os.path.basename(patch), {k: v[:3] for k, v in lost.items()}, flush=True)
    print("refactors losing keys:", tot, "of", len(patches))


if __name__ == "__main__":
    main()
