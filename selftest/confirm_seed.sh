#!/bin/sh
# usage: selftest/confirm_seed.sh <id> <patch.diff> <demo.py>
# Confirms a seeded change in a fresh scratch worktree of /repo (demo passes on the original; patch applies; baseline suite passes
# with the change; demo fails with the change), runs every registered quick check against that worktree (--repo), and removes it.
# (/repo itself is never modified, so background runs that read /repo are not disturbed.)
id=$1; patch=$2; demo=$3
wt=$(mktemp -d /tmp/seedwt_XXXX); rmdir $wt
git -C /repo worktree add -q $wt HEAD || exit 2
sed -e "s|/tmp/wt[0-9]*_[a-z0-9]*|$wt|g" $demo > $wt/demo.py
cd $wt
echo "== demo on original"; PYTHONPATH=$wt /venv/bin/python demo.py > /tmp/seed_$id.orig.out 2>&1; echo "exit=$?"; tail -2 /tmp/seed_$id.orig.out
git apply $patch || { echo "PATCH DOES NOT APPLY"; git -C /repo worktree remove --force $wt; exit 2; }
echo "== test suite with the change"; PYTHONPATH=$wt /venv/bin/python -m pytest -q -p no:cacheprovider tests 2>&1 | tail -1
echo "== demo with the change"; PYTHONPATH=$wt /venv/bin/python demo.py > /tmp/seed_$id.chg.out 2>&1; echo "exit=$?"; tail -3 /tmp/seed_$id.chg.out
cd /verif
echo "== checks against the changed tree"
for p in C01 C02 C03 C04 C05 C06 C07 C08 C09 C10 C11 C12 C13 C14 C15 C16 C17 C18; do
  out=$(VERIF_NO_EVIDENCE=1 VERIF_OUT=/tmp/seed_out ./check $p --repo $wt 2>&1); rc=$?
  if [ $rc -ne 0 ]; then echo "$p rc=$rc"; echo "$out" | grep -E "key:|ANALYSIS-ERROR" | head -4; fi
done
git -C /repo worktree remove --force $wt
