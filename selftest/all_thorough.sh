#!/bin/bash
# development aid: every thorough check once, in order; prints the summary line and the exit code of each
cd "$(dirname "$0")/.."
rc_all=0
for i in $(seq -w 1 18); do
  out=$(./check C$i --tier thorough 2>&1); rc=$?
  echo "C$i rc=$rc $(echo "$out" | tail -1)"
  [ $rc -ne 0 ] && { echo "$out" | grep -v "^KNOWN-FINDING" | tail -15; rc_all=1; }
done
exit $rc_all
