#!/usr/bin/env python3
"""Development tool (not a check): does the normal form erase a change of behaviour?

Every single-edit mutant of mutsweep.py (control, data, value operators) is normalised exactly as the loader does it (sa.core.Repo) and the
normalised trees are compared with those of the unchanged package.  A mutant whose normal form EQUALS the original's is invisible to every
rule, whatever the rule says: either the edit is behaviour-preserving (fine: that is what the normal form is for) or a pass of sa/normal.py is
unsound there.  The collisions are listed for triage; with --suite each one is also run against the baseline test suite (a collision the
suite kills is still a soundness defect of the normal form, but not one a reviewer relying on the suite would miss).

usage: selftest/nfaudit.py [--ops control,data,value] [--jobs N] [--suite] [--out FILE]
Scratch copies live under $TMPDIR and are removed as soon as a mutant is done.
"""
import argparse, ast, json, os, shutil, subprocess, sys, tempfile
from concurrent.futures import ProcessPoolExecutor

HERE = os.path.dirname(os.path.abspath(__file__))
VERIF = os.path.dirname(HERE)
sys.path.insert(0, VERIF)
sys.path.insert(0, HERE)
REPO = os.environ.get("VP_RUN_REPO") or os.environ.get("VERIF_REPO", "/repo")


def digest(root):
    from sa.core import Repo
    repo = Repo(root)
    return {name: ast.dump(m.tree, include_attributes=False) for name, m in repo.modules.items()}


def one(job):
    module, desc, new_src, base = job
    d = tempfile.mkdtemp(prefix="nfa_")
    try:
        shutil.copytree(os.path.join(REPO, "ptera"), os.path.join(d, "ptera"))
        with open(os.path.join(d, "ptera", module + ".py"), "w") as f:
            f.write(new_src)
        try:
            compile(new_src, module, "exec")
        except SyntaxError:
            return desc, "syntax", None
        try:
            dg = digest(d)
        except Exception as e:
            return desc, "analysis-error", f"{type(e).__name__}: {e}"[:120]
        if dg == base:
            suite = None
            if os.environ.get("NFA_SUITE"):
                r = subprocess.run(["/venv/bin/python", "-m", "pytest", "-q", "-x", "-p", "no:cacheprovider", os.path.join(REPO, "tests")],
                                   cwd=d, env=dict(os.environ, PYTHONPATH=d), capture_output=True, text=True)
                suite = "survives" if r.returncode == 0 else "killed"
            return desc, "collision", suite
        return desc, "distinct", None
    finally:
        shutil.rmtree(d, ignore_errors=True)


def main():
    ap = argparse.ArgumentParser()
    ap.add_argument("--ops", default="control,data,value")
    ap.add_argument("--jobs", type=int, default=12)
    ap.add_argument("--suite", action="store_true")
    ap.add_argument("--limit", type=int, default=0)
    ap.add_argument("--out", default=None)
    a = ap.parse_args()
    if a.suite:
        os.environ["NFA_SUITE"] = "1"
    import mutsweep
    gens = {"control": mutsweep.mutants_of, "data": mutsweep.data_mutants_of, "value": mutsweep.value_mutants_of}
    base = digest(REPO)
    jobs = []
    for fn in sorted(os.listdir(os.path.join(REPO, "ptera"))):
        if not fn.endswith(".py") or fn.startswith("__"):
            continue
        src = open(os.path.join(REPO, "ptera", fn)).read()
        for op in a.ops.split(","):
            seen = set()
            for desc, new in gens[op](src, fn[:-3]):
                if new == src or new in seen:
                    continue
                seen.add(new)
                jobs.append((fn[:-3], f"[{op}] {desc}", new, base))
    if a.limit:
        jobs = jobs[:a.limit]
    print(f"{len(jobs)} mutants", flush=True)
    res = {"collision": [], "distinct": 0, "syntax": 0, "analysis-error": []}
    with ProcessPoolExecutor(a.jobs) as ex:
        for desc, status, extra in ex.map(one, jobs, chunksize=8):
            if status == "collision":
                res["collision"].append({"mutant": desc, "suite": extra})
                print("COLLISION", extra or "", desc, flush=True)
            elif status == "analysis-error":
                res["analysis-error"].append({"mutant": desc, "error": extra})
            else:
                res[status] += 1
    print(f"collisions: {len(res['collision'])}  distinct: {res['distinct']}  not compiling: {res['syntax']}  analysis errors: {len(res['analysis-error'])}")
    if a.out:
        with open(a.out, "w") as f:
            json.dump(res, f, indent=1)


if __name__ == "__main__":
    main()
