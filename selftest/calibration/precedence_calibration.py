"""Dev-time calibration for R15.3: flip the sign of one (left-op, right-op) comparison at a time in the real
parser and see which documented law instances stop holding."""
import itertools, math
from ptera import selector as sel, opparse

tower = sel.parser.order
ops = [",", "", ">", "=", "~", ":", "as", "!", "!!", "$", "(", ")", "WORD", None]
def key(tok):
    if tok is None: return None
    return tok.value if tok.value in tower.operators else "WORD"
orig_call = opparse.OperatorPrecedenceTower.__call__
FLIP = [None]
def patched(self, op1, op2):
    r = orig_call(self, op1, op2)
    if r == "done": return r
    if FLIP[0] == (key(op1), key(op2)):
        return -r if r != 0 else 1
    return r
opparse.OperatorPrecedenceTower.__call__ = patched

atoms = ["x", "x as y", "x:T", "x=1", "$x", "#value", "x as y:T", "*:T", "x as y=1", "$x:T", "x:T=1", "$x=1", "x as y:T=1"]
ctx = ["a", "a as b", "a:T", "a=1", "$a", "a as b:T", "$a:T"]
laws = []
for x in atoms:
    laws.append(("L1 f > X == f(!X)", f"f > {x}", f"f(!{x})"))
    for a in ctx:
        laws.append(("L2 f(A) > X == f(A, !X)", f"f({a}) > {x}", f"f({a}, !{x})"))
    laws.append(("L3 a > b > X == a > (b > X)", f"a > b > {x}", f"a > (b > {x})"))
    laws.append(("L3' a > b > X == a(b(!X))", f"a > b > {x}", f"a(b(!{x}))"))
laws += [("L4 f() as r == f(!#value as r)", "f() as r", "f(!#value as r)"),
         ("L4' g > f() as r", "g > f() as r", "g > f(!#value as r)"),
         ("L6 f(b)=c == f(b, #value=c)", "f(b)=c", "f(b, #value=c)"),
         ("L6' g(f(b)=c)", "g(f(b)=c, !z)", "g(f(b, #value=c), !z)"),
         ("L7 a:T(c) == (a:T)(c)", "a:T(c)", "(a:T)(c)"),
         ("L8 a == (a)", "a", "(a)")]
# $x == * as x for every suffix the grammar allows after the capture (tag, value, both) and in every position
for sfx in ["", ":T", "=1", ":T=1"]:
    laws += [("L5 $x == * as x", f"$x{sfx}", f"* as x{sfx}"), ("L5a f > $x", f"f > $x{sfx}", f"f > * as x{sfx}"),
             ("L5b f($x)", f"f($x{sfx})", f"f(* as x{sfx})"), ("L5c f(!$x)", f"f(!$x{sfx})", f"f(!* as x{sfx})"),
             ("L5d a > b > $x", f"a > b > $x{sfx}", f"a(b(!* as x{sfx}))")]

def holds(l, r):
    try: a = sel.parse(l)
    except BaseException as e: a = ("ERR", type(e).__name__)
    try: b = sel.parse(r)
    except BaseException as e: b = ("ERR", type(e).__name__)
    if isinstance(a, tuple) or isinstance(b, tuple): return False
    return a is b

base = [(n, l, r) for n, l, r in laws if holds(l, r)]
print("law instances holding on the unmodified parser:", len(base), "of", len(laws))
for n, l, r in laws:
    if not holds(l, r): print("   does NOT hold today:", n, "|", l, "|", r)

def sign(a, b):
    class T:
        def __init__(s, v):
            s.value, s.type, s.location = ("zz", "WORD", None) if v == "WORD" else (v, "OPERATOR", None)
    ta = None if a is None else T(a); tb = None if b is None else T(b)
    r = orig_call(tower, ta, tb)
    return "+" if r > 0 else "-" if r < 0 else "0"

needed = {}
for a, b in itertools.product(ops, ops):
    if a is None and b is None: continue
    FLIP[0] = (a, b)
    broken = sorted({n.split()[0] for n, l, r in base if not holds(l, r)})
    if broken: needed[(a, b)] = broken
FLIP[0] = None
print(f"\nsign entries whose flip breaks at least one law instance: {len(needed)} of {len(ops)**2-1}")
for (a, b), br in sorted(needed.items(), key=lambda kv: (str(kv[0][0]), str(kv[0][1]))):
    print(f"  left={a!r:7} right={b!r:7} sign today={sign(a,b)}  breaks {','.join(br)}")
