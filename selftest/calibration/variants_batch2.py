"""Dev-time calibration: which single-edit variants of ptera survive the baseline suite."""
import os, shutil, subprocess, sys, json, tempfile
from concurrent.futures import ThreadPoolExecutor

V = [
 ("probe_exit_no_global_remove", "probe.py", "        global_probes.remove(self)\n", ""),
 ("proceed_exit_order", "overlay.py", "        HandlerCollection.current.reset(self.reset)\n        self.interactor.exit()", "        self.interactor.exit()\n        HandlerCollection.current.reset(self.reset)"),
 ("fits_no_hash_exemption", "overlay.py", 'if not cap.name.startswith("#") and name not in fvars:', "if name not in fvars:"),
 ("total_close_subset", "interpret.py", "if set(args) == leaf.names:", "if set(args) <= leaf.names:"),
 ("exc_type_unvisited", "transform.py", "type=node.type and self.visit(node.type),", "type=node.type,"),
 ("for_iter_unvisited", "transform.py", "iter=self.visit(node.iter),", "iter=node.iter,"),
 ("namedexpr_value_unvisited", "transform.py", "            None,\n            self.visit(node.value),\n            orig=node,\n            expression=True,", "            None,\n            node.value,\n            orig=node,\n            expression=True,"),
 ("yield_value_unvisited", "transform.py", '            self._get("exit_tag"),\n            self.visit(node.value or ast.Constant(value=None)),', '            self._get("exit_tag"),\n            node.value or ast.Constant(value=None),'),
 ("close_at_exit_after_fork", "overlay.py", "itor.register(acc, capmap, close_at_exit=is_template)", "itor.register(acc, capmap, close_at_exit=acc.template)"),
 ("enter_after_prologue", "transform.py", "        body = reduce(list.__add__, [*enter_stmts, body])", "        body = reduce(list.__add__, [body, *enter_stmts])"),
 ("exit_tag_on_enter", "transform.py", '            enter_tag=self._get("enter_tag"),\n            exit_tag=self._get("exit_tag"),', '            enter_tag=self._get("exit_tag"),\n            exit_tag=self._get("exit_tag"),'),
 ("standard_info_receive_tag", "transform.py", '            "name": "#receive",\n            "annotation": enter_tag,', '            "name": "#receive",\n            "annotation": exit_tag,'),
 ("interned_key_before_defaults", "selector.py", "        kwargs = {**cls._constructor_defaults, **kwargs}\n        key = tuple(sorted(kwargs.items()))", "        key = tuple(sorted(kwargs.items()))\n        kwargs = {**cls._constructor_defaults, **kwargs}"),
 ("activated_never_set", "probe.py", "        self._activated = True\n        global_probes.add(self)", "        global_probes.add(self)"),
 ("emit2_step_swapped", "probe.py", '"begin" if element.focus else "end"', '"end" if element.focus else "begin"'),
 ("overridable_total_allowed", "probe.py", "        if probe_type != \"total\" and (sel.focus or probe_type == \"immediate\"):\n            return Immediate(\n                sel, intercept=", "        if True:\n            return Immediate(\n                sel, intercept="),
 ("tooler_reuses_no_stack_check", "overlay.py", '    if hasattr(fn, "__ptera_stack__"):\n        st = fn.__ptera_stack__\n    else:\n        st = fn.__ptera_stack__ = SyncedStackedTransforms(fn, proceed=proceed)\n\n    st.push(captures)', '    st = fn.__ptera_stack__ = SyncedStackedTransforms(fn, proceed=proceed)\n\n    st.push(captures)'),
 ("snapshot_live_capture", "interpret.py", "        args = {k: cap.snapshot() for k, cap in self.build().items()}", "        args = dict(self.build().items())"),
 ("immediate_log_accum", "interpret.py", "        cap = self.getcap(element)\n        cap.set(varname, value)", "        cap = self.getcap(element)\n        cap.accum(varname, value)"),
 ("resolve_self_equality_ok", "selector.py", "                    match = v.value == value or (", "                    match = v.value is value or v.value == value or ("),
 ("evc_import_dropped", "transform.py", "    def visit_Import(self, node):\n        self.visit_ImportFrom(node)\n\n    def visit_ImportFrom(self, node):\n        for alias in node.names:", "    def visit_ImportFrom(self, node):\n        for alias in node.names:"),
 ("free_not_removed_from_external", "transform.py", "self.external = evc.used - evc.assigned - evc.free", "self.external = evc.used - evc.assigned"),
 ("overlay_enter_replaces", "overlay.py", "                collection = curr.plus(handlers)", "                collection = HandlerCollection(handlers)"),
 ("no_overlay_no_reset", "overlay.py", "    finally:\n        HandlerCollection.current.reset(reset)", "    finally:\n        pass"),
 ("keyed_attr_not_overridable", "transform.py", '                self._wrap_call("__ptera_Key", "attr", target.attr),\n                ann_arg,\n                value_arg,\n                True,', '                self._wrap_call("__ptera_Key", "attr", target.attr),\n                ann_arg,\n                value_arg,\n                False,'),
]

def run(v):
    name, f, old, new = v
    d = tempfile.mkdtemp(prefix="ptv_", dir="/tmp")
    try:
        shutil.copytree("/repo/ptera", d + "/ptera"); shutil.copytree("/repo/tests", d + "/tests")
        for extra in ("pyproject.toml",):
            shutil.copy("/repo/" + extra, d)
        p = f"{d}/ptera/{f}"; s = open(p).read()
        if name == "augassign_interaction_first":
            new = "            return [\n                *self.make_interaction(\n                    node.target,\n                    None,\n                    ast.Name(id=node.target.id, ctx=ast.Load()),\n                    orig=node,\n                ),\n                self.generic_visit(node),\n            ]\n        if False:\n            return [\n                self.generic_visit(node),\n                *self.make_interaction("
        if s.count(old) != 1:
            return name, "PATCH-MISS", s.count(old)
        open(p, "w").write(s.replace(old, new))
        env = dict(os.environ, PYTHONPATH=d, PYTHONDONTWRITEBYTECODE="1")
        r = subprocess.run(["/venv/bin/python", "-m", "pytest", "-q", "-x", "-p", "no:cacheprovider", "--timeout=300", "tests"], cwd=d, env=env, capture_output=True, text=True, timeout=900)
        tail = r.stdout.strip().splitlines()[-1] if r.stdout.strip() else r.stderr[-200:]
        failed = [l for l in r.stdout.splitlines() if l.startswith("FAILED")][:2]
        return name, "SURVIVES" if r.returncode == 0 else "killed", tail + " " + " ".join(failed)
    finally:
        shutil.rmtree(d, ignore_errors=True)

if __name__ == "__main__":
    with ThreadPoolExecutor(14) as ex:
        for name, status, info in ex.map(run, V):
            print(f"{status:10s} {name:34s} {str(info)[:150]}")
