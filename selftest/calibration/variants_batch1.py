"""Dev-time calibration: which single-edit variants of ptera survive the baseline suite."""
import os, shutil, subprocess, sys, json, tempfile
from concurrent.futures import ThreadPoolExecutor

V = [
 # name, file, old, new
 ("for_drop_orelse", "transform.py", "orelse=self.visit_body(node.orelse),", "orelse=[],"),
 ("delimit_exception_not_base", "transform.py", 'type=ast.Name(id="BaseException", ctx=ast.Load()),', 'type=ast.Name(id="Exception", ctx=ast.Load()),'),
 ("handler_no_reraise", "transform.py", "                    ast.Raise(),\n", "                    ast.Pass(),\n"),
 ("return_discard_interact", "transform.py", "return ast.copy_location(ast.Return(value=new_value), node)", "return [ast.Expr(new_value), ast.copy_location(ast.Return(value=node.value), node)]"),
 ("except_interaction_after_body", "transform.py", "            new_body = self.generate_interactions(target)\n        new_body.extend(self.visit_body(node.body))", "            new_body = self.generate_interactions(target)\n        new_body = self.visit_body(node.body) + new_body"),
 ("exit_not_in_finally", "transform.py", "            finalbody=finalbody,\n        )\n        body = [trycatch]", "            finalbody=[],\n        )\n        body = [trycatch, *finalbody]"),
 ("yield_swap_nesting", "transform.py", '            "#yield",\n            None,\n            self._get("exit_tag"),', '            "#receive",\n            None,\n            self._get("exit_tag"),'),
 ("freevar_overridable", "transform.py", "                value_arg,\n                False,\n            ]", "                value_arg,\n                True,\n            ]"),
 ("interact_log_before_intercept", "interpret.py", "            fr_value = wfr.intercept(value)\n", "            wfr.log(value)\n            fr_value = wfr.intercept(value)\n"),
 ("interact_return_pre_override", "interpret.py", "                value = fr_value\n", "                value2 = fr_value\n"),
 ("absent_guard_after_log", "interpret.py", "            if value is ABSENT:\n                raise PteraNameError(varname, self.fn)\n\n            wfr.log(value)\n", "            wfr.log(value)\n            if value is ABSENT:\n                raise PteraNameError(varname, self.fn)\n\n"),
 ("overlay_exit_no_reset", "overlay.py", "        if self.handlers:\n            HandlerCollection.current.reset(self.reset)", "        if self.handlers:\n            pass"),
 ("untooler_no_pop", "overlay.py", "        st.pop(captures)\n", "        pass\n"),
 ("pop_forgets_captures", "transform.py", "        for cap in captures:\n            self.captures[cap] -= 1", "        pass"),
 ("synced_push_no_apply", "transform.py", "        super().push(captures)\n        self._apply(self.target)", "        super().push(captures)"),
 ("synced_pop_no_apply", "transform.py", "        super().pop(captures)\n        self._apply(self.target)", "        super().pop(captures)"),
 ("enter_guard_after_install", "probe.py", '        if self._activated:\n            raise Exception("An instance of Probe can only be entered once")\n\n        self._install_tooling()\n', '        self._install_tooling()\n        if self._activated:\n            raise Exception("An instance of Probe can only be entered once")\n\n'),
 ("autotool_no_verify", "overlay.py", "        rval = rval.wrap_functions(_tooler)\n        verify(rval)", "        rval = rval.wrap_functions(_tooler)"),
 ("plus_mutates_in_place", "overlay.py", "        return type(self)(self.handler_pairs + handler_pairs)", "        self.handler_pairs.extend(handler_pairs)\n        return self"),
 ("apply_no_registry_update", "transform.py", "            code_registry.update_cache_entry(fn, fn.__code__, code)\n", "            pass\n"),
 ("set_base_no_discard", "transform.py", "        self.base_function.__ptera_discard__ = True\n", ""),
 ("clone_omits_value", "selector.py", '            "value": self.value,\n            "category": self.category,', '            "category": self.category,'),
 ("as_below_comma", "selector.py", '"as": opparse.rassoc(350),', '"as": opparse.rassoc(5),'),
 ("lt_uses_le", "tools.py", "    return lambda x: x < end", "    return lambda x: x <= end"),
 ("range_end_inclusive", "tools.py", "value >= self.end", "value > self.end"),
 ("range_negative_mod", "tools.py", "            return (\n                (value - (self.start or 0)) + self.modulo\n            ) % self.modulo == 0", "            return abs(value - (self.start or 0)) % self.modulo == 0"),
 ("close_not_checked", "interpret.py", "        self._close = self.__check(close, check)", "        self._close = close"),
 ("intercept_not_checked", "interpret.py", "        self._intercept = self.__check(intercept, check)", "        self._intercept = intercept"),
 ("match_tag_no_set_membership", "tags.py", "        return any(cat == to_match for cat in tg.members)", "        return False"),
 ("param_ann_none", "transform.py", "                ann=self._ann(target.annotation),", "                ann=None,"),
 ("hashvars_lose_receive", "selector.py", '"#exit", "#receive", "#value"', '"#exit", "#value"'),
 ("evc_arg_label_body", "transform.py", '        self.provenance[node.arg] = "argument"', '        self.provenance[node.arg] = "body"'),
 ("first_intercept_wins", "interpret.py", "                if tmp is not ABSENT:\n                    rval = tmp", "                if tmp is not ABSENT and rval is ABSENT:\n                    rval = tmp"),
 ("plus_prepends", "overlay.py", "self.handler_pairs + handler_pairs", "handler_pairs + self.handler_pairs"),
 ("exit_order_uninstall_first", "probe.py", "        self._ol.__exit__(None, None, None)\n        global_probes.remove(self)\n        self._uninstall_tooling()", "        self._uninstall_tooling()\n        global_probes.remove(self)\n        self._ol.__exit__(None, None, None)"),
 ("proceed_exit_no_interactor_exit", "overlay.py", "        HandlerCollection.current.reset(self.reset)\n        self.interactor.exit()", "        HandlerCollection.current.reset(self.reset)"),
 ("endloop_not_finally", "transform.py", '            [f"#endloop_{v}" for v in svc.vars],\n        )', '            [],\n        )\n        new_body += [s for v in svc.vars for s in self.standalone_interaction(f"#endloop_{v}", None, None, True, False)]'),
 ("inplace_no_discard", "overlay.py", "    new_fn.__ptera_discard__ = True\n", ""),
 ("dig_no_property", "selector.py", "    if isinstance(fn, property):\n        return _dig(fn.fget)\n", ""),
 ("check_captures_any", "selector.py", "                    if not match:\n                        return False", "                    if match:\n                        return True"),
 ("getcap_key_by_name", "interpret.py", "        self.captures[element.capture] = cap\n        cap.names.append(varname)", "        self.captures[element.capture] = cap"),
 ("intercept_keeps_tentative", "interpret.py", "        del self.captures[element.capture]\n", ""),
 ("get_keyed_on_captures", "transform.py", "        if self.instrument_count == 0:\n            caps = None", "        if not any(c > 0 for c in self.captures.values()):\n            caps = None"),
 ("augassign_interaction_first", "transform.py", "            return [\n                self.generic_visit(node),\n                *self.make_interaction(", "            return [\n                *self.make_interaction("),
]

def run(v):
    name, f, old, new = v
    d = tempfile.mkdtemp(prefix="ptv_", dir="/tmp")
    try:
        shutil.copytree("/repo/ptera", d + "/ptera"); shutil.copytree("/repo/tests", d + "/tests")
        for extra in ("pyproject.toml",):
            shutil.copy("/repo/" + extra, d)
        p = f"{d}/ptera/{f}"; s = open(p).read()
        if name == "augassign_interaction_first":
            new = "            return [\n                *self.make_interaction(\n                    node.target,\n                    None,\n                    ast.Name(id=node.target.id, ctx=ast.Load()),\n                    orig=node,\n                ),\n                self.generic_visit(node),\n            ]\n        if False:\n            return [\n                self.generic_visit(node),\n                *self.make_interaction("
        if s.count(old) != 1:
            return name, "PATCH-MISS", s.count(old)
        open(p, "w").write(s.replace(old, new))
        env = dict(os.environ, PYTHONPATH=d, PYTHONDONTWRITEBYTECODE="1")
        r = subprocess.run(["/venv/bin/python", "-m", "pytest", "-q", "-x", "-p", "no:cacheprovider", "--timeout=300", "tests"], cwd=d, env=env, capture_output=True, text=True, timeout=900)
        tail = r.stdout.strip().splitlines()[-1] if r.stdout.strip() else r.stderr[-200:]
        failed = [l for l in r.stdout.splitlines() if l.startswith("FAILED")][:2]
        return name, "SURVIVES" if r.returncode == 0 else "killed", tail + " " + " ".join(failed)
    finally:
        shutil.rmtree(d, ignore_errors=True)

if __name__ == "__main__":
    with ThreadPoolExecutor(14) as ex:
        for name, status, info in ex.map(run, V):
            print(f"{status:10s} {name:34s} {str(info)[:150]}")
