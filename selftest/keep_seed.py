#!/usr/bin/env python3
"""keep_seed.py <id> <property> <patch> <demo> <needs> <caught_by> <ran...>  -> /verif/seeded/<id>/{patch.diff,demo.py,meta.json}"""
import json, os, shutil, sys
sid, prop, patch, demo, needs, caught, ran = sys.argv[1:8]
d = os.path.join(os.path.dirname(os.path.dirname(os.path.abspath(__file__))), "seeded", sid)
os.makedirs(d, exist_ok=True)
shutil.copy(patch, os.path.join(d, "patch.diff"))
shutil.copy(demo, os.path.join(d, "demo.py"))
json.dump({"id": sid, "breaks_property": prop, "written_by": "sub-agent given only the property text and a scratch worktree",
           "needs_to_manifest": needs, "caught_by": caught,
           "confirmed": ran}, open(os.path.join(d, "meta.json"), "w"), indent=1)
print("kept", d)
