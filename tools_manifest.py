#!/usr/bin/env python3
"""Regenerate MANIFEST.json from the table below (keeps it valid at all times)."""
import json, os, sys

HERE = os.path.dirname(os.path.abspath(__file__))
BASELINE = "cd /repo && /venv/bin/python -m pytest -ra -q -p no:cacheprovider --timeout=900 --continue-on-collection-errors"

# property -> (engine, technique, level text, level note, design ref)
CLAIMED = {}
NOT_APPLICABLE = {}

def load_tables():
    sys.path.insert(0, HERE)
    import manifest_tables as mt
    return mt.CLAIMED, mt.NOT_APPLICABLE, getattr(mt, "SOURCE_COMMITS", [])

def main():
    claimed, na, commits = load_tables()
    checks = []
    for pid in sorted(claimed):
        c = claimed[pid]
        checks.append({
            "property_id": pid,
            "quick_cmd": f"./check {pid} --tier quick",
            "thorough_cmd": f"./check {pid} --tier thorough",
            "evidence_file": f"/verif/evidence/{pid}.json",
            "replay_cmd_template": f"./check {pid} --replay {{path}}",
            "engine": c["engine"],
            "technique": c["technique"],
            "level_claimed": {"category": "other", "text": c["level"], "design_ref": c["design_ref"]},
            "level_note": c["note"],
        })
    m = {
        "version": 1,
        "setup_cmd": "true",
        "hooks": {
            "guard": "BREULEUX_PTERA_VERIF",
            "enable": "no hooks are needed: every check parses /repo's working tree and never imports or runs ptera",
            "baseline_off_cmd": BASELINE,
            "source_commits": commits,
            "add_only": True,
        },
        "engines": [
            {"name": "T", "path": "sa/xform", "serves_properties": sorted(p for p in claimed if "T" in claimed[p]["engine"]),
             "kind_free_text": "abstract interpretation (value-flow over a term domain) of ptera's AST-builder code with the input node left abstract: yields the finite set of output templates per statement form and instrumentation choice; rules are queries over templates"},
            {"name": "P", "path": "sa", "serves_properties": sorted(p for p in claimed if "P" in claimed[p]["engine"]),
             "kind_free_text": "statement CFG with exception edges, dominance / must-pass-through, acquire-release pairing, ContextVar token discipline, who-may-write, taint to hash/== sinks, exception-escape and operand-kind flow, literal-table extraction by constant folding"},
        ],
        "checks": checks,
        "not_applicable": [{"property_id": p, "reason": na[p]} for p in sorted(na)],
        "notes": "Static analysis only. Exit 0 = all obligations discharged or matched by known_findings.json (printed as KNOWN-FINDING); exit 1 + VIOLATION line = unlisted finding; exit 2 + ANALYSIS-ERROR = anchor vanished / construct outside the analysed subset (never a silent pass). Before any rule runs the parsed source is brought to a normal form (sa/normal.py; DESIGN section 12: renamed private functions and locals, extracted helpers, named constants, loop/comprehension and guard-clause spellings) and rules compare path conditions and facts, not source text; 144 behaviour-preserving rewrites written by sub-agents are replayed by the self-test (142 silent, 2 recorded limits) next to 190 breaking variants. Thorough tier = deeper recursion bound + replay of all catalogued variants of the property and of the rewrites on scratch copies (VERIF_JOBS workers, default 4).",
    }
    with open(os.path.join(HERE, "MANIFEST.json"), "w") as f:
        json.dump(m, f, indent=1)
    print("MANIFEST.json written:", len(checks), "checks,", len(na), "not applicable")

if __name__ == "__main__":
    main()
