"""Command line: ./check <Cxx> [--tier quick|thorough] [--repo DIR] [--replay FILE]"""
import importlib
import json
import os
import sys
import traceback


def main(argv):
    import argparse
    ap = argparse.ArgumentParser()
    ap.add_argument("pid")
    ap.add_argument("--tier", default=os.environ.get("VERIF_TIER") or "quick", choices=["quick", "thorough"])
    ap.add_argument("--repo")
    ap.add_argument("--replay")
    a = ap.parse_args(argv)
    if a.repo:
        os.environ["VERIF_REPO"] = a.repo
    if a.replay:
        with open(a.replay) as f:
            data = json.load(f)
        for fd in data.get("findings", []):
            print(f"{fd['where']}: [{fd['rule']}] {fd['what']}\n    key: {fd['key']}")
            if fd.get("detail"):
                print("    detail:", json.dumps(fd["detail"], indent=1, default=str)[:2000])
        print("(re-running the check on the current tree)")
    from .core import AnalysisError, Repo
    from .report import Check
    pid = a.pid.upper()
    try:
        mod = importlib.import_module(f"sa.rules.{pid.lower()}")
    except ModuleNotFoundError:
        print(f"ANALYSIS-ERROR property={pid} no checker (property not claimed; see MANIFEST.json not_applicable)")
        return 2
    try:
        repo = Repo()
        chk = Check(pid, a.tier)
        mod.run(repo, chk)
        return chk.finish()
    except AnalysisError as e:
        print(f"ANALYSIS-ERROR property={pid} {e}")
        return 2
    except Exception:
        traceback.print_exc()
        print(f"ANALYSIS-ERROR property={pid} internal error in the analyser (not a verdict)")
        return 2


if __name__ == "__main__":
    sys.exit(main(sys.argv[1:]))
