"""Command line: ./check <Cxx> [--tier quick|thorough] [--repo DIR] [--replay FILE]"""
import importlib
import json
import os
import sys
import traceback


def selfcheck(pid, mod, repo, chk):
    """Thorough tier: replay every catalogued breaking change of this property (selftest/variants.py + seeded/) on a scratch copy of
    the tree under analysis and require that this checker reports an unlisted violation for it; replay the behaviour-preserving
    variants and require silence.  A checker that has lost a rule is reported as ANALYSIS-ERROR (never as a verdict on /repo).
    Variants whose anchor text is absent (the tree under analysis was edited there) are skipped and counted."""
    import glob
    import shutil
    import subprocess
    import tempfile
    from .core import AnalysisError, Repo
    from .report import Check, VERIF, load_known
    sys.path.insert(0, os.path.join(VERIF, "selftest"))
    import variants
    cat = list(variants.V)
    for mf in sorted(glob.glob(os.path.join(VERIF, "seeded", "*", "meta.json"))):
        m = json.load(open(mf))
        cat.append(dict(name="seeded:" + m["id"], file="", expect=[m["breaks_property"]], patch=os.path.join(os.path.dirname(mf), "patch.diff")))
    limits = json.load(open(os.path.join(VERIF, "selftest", "refactors", "LIMITS.json")))
    for pf in sorted(glob.glob(os.path.join(VERIF, "selftest", "refactors", "*.diff"))):      # behaviour-preserving rewrites written by sub-agents: silence required
        if os.path.basename(pf)[:-5] not in limits:      # documented limits of the normal form are not replayed (DESIGN 12.5)
            cat.append(dict(name="refactor:" + os.path.basename(pf)[:-5], file="", expect=[], patch=pf))
    known = {k["key"] for k in load_known().get("findings", [])}
    base = {o.key for o in chk.obligations if not o.ok}
    replayed = detected = silent_ok = skipped = 0
    missed = []
    for v in cat:
        exp = v.get("expect")
        if exp is None or (pid not in exp and exp != []):
            continue
        d = tempfile.mkdtemp(prefix="ptsc_")
        try:
            shutil.copytree(os.path.join(repo.root, "ptera"), d + "/ptera")
            if v.get("patch"):
                r = subprocess.run(["patch", "-p1", "-s", "-d", d, "-i", v["patch"]], capture_output=True, text=True)
                if r.returncode:
                    skipped += 1
                    continue
            else:
                fp = f"{d}/ptera/{v['file']}"
                src = open(fp).read()
                edits = v.get("edits") or [(v["old"], v["new"])]
                if any(src.count(o) != 1 for o, n in edits):
                    skipped += 1
                    continue
                for o, n in edits:
                    src = src.replace(o, n)
                open(fp, "w").write(src)
            c2 = Check(pid, "quick")
            try:
                mod.run(Repo(d), c2)
                new = {o.key for o in c2.obligations if not o.ok} - base - known
            except AnalysisError as e:
                new = set() if exp == [] else {f"analysis-error:{e}"}
                if exp == []:
                    missed.append(f"{v['name']}: behaviour-preserving variant made the analysis fail ({e})")
            replayed += 1
            if exp == []:
                if new:
                    missed.append(f"{v['name']}: behaviour-preserving variant reported {sorted(new)[:2]}")
                else:
                    silent_ok += 1
            elif new:
                detected += 1
            else:
                missed.append(f"{v['name']}: breaking variant not reported")
        finally:
            shutil.rmtree(d, ignore_errors=True)
    chk.analysed["selfcheck"] = {"variants_replayed": replayed, "breaking_detected": detected, "preserving_silent": silent_ok, "skipped_anchor_absent": skipped}
    if missed:
        raise AnalysisError("self-check of the checker failed: " + "; ".join(missed[:4]))


def main(argv):
    import argparse
    ap = argparse.ArgumentParser()
    ap.add_argument("pid")
    ap.add_argument("--tier", default=os.environ.get("VERIF_TIER") or "quick", choices=["quick", "thorough"])
    ap.add_argument("--repo")
    ap.add_argument("--replay")
    a = ap.parse_args(argv)
    if a.repo:
        os.environ["VERIF_REPO"] = a.repo
    if a.replay:
        with open(a.replay) as f:
            data = json.load(f)
        for fd in data.get("findings", []):
            print(f"{fd['where']}: [{fd['rule']}] {fd['what']}\n    key: {fd['key']}")
            if fd.get("detail"):
                print("    detail:", json.dumps(fd["detail"], indent=1, default=str)[:2000])
        print("(re-running the check on the current tree)")
    from .core import AnalysisError, Repo
    from .report import Check
    pid = a.pid.upper()
    try:
        mod = importlib.import_module(f"sa.rules.{pid.lower()}")
    except ModuleNotFoundError:
        print(f"ANALYSIS-ERROR property={pid} no checker (property not claimed; see MANIFEST.json not_applicable)")
        return 2
    try:
        repo = Repo()
        chk = Check(pid, a.tier)
        chk.analysed["normal_form"] = {k: (v if not isinstance(v, list) else v[:12]) for k, v in sorted(repo.normal_stats.items())} or "source already in normal form"
        mod.run(repo, chk)
        if a.tier == "thorough" and not os.environ.get("VERIF_NO_SELFCHECK"):
            selfcheck(pid, mod, repo, chk)
        return chk.finish()
    except AnalysisError as e:
        print(f"ANALYSIS-ERROR property={pid} {e}")
        return 2
    except Exception:
        traceback.print_exc()
        print(f"ANALYSIS-ERROR property={pid} internal error in the analyser (not a verdict)")
        return 2


if __name__ == "__main__":
    sys.exit(main(sys.argv[1:]))
