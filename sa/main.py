"""Command line: ./check <Cxx> [--tier quick|thorough] [--repo DIR] [--replay FILE]"""
import importlib
import json
import os
import sys
import traceback


def selfcheck(pid, mod, repo, chk):
    """Thorough tier: replay every catalogued breaking change of this property (selftest/variants.py + seeded/) on a scratch copy of
    the tree under analysis and require that this checker reports an unlisted violation for it; replay the behaviour-preserving
    variants and require silence.  A checker that has lost a rule is reported as ANALYSIS-ERROR (never as a verdict on /repo).
    Variants whose anchor text is absent (the tree under analysis was edited there) are skipped and counted."""
    import glob
    import shutil
    import subprocess
    import tempfile
    from .core import AnalysisError, Repo
    from .report import Check, VERIF, load_known
    sys.path.insert(0, os.path.join(VERIF, "selftest"))
    import variants
    cat = list(variants.V)
    for mf in sorted(glob.glob(os.path.join(VERIF, "seeded", "*", "meta.json"))):
        m = json.load(open(mf))
        cat.append(dict(name="seeded:" + m["id"], file="", expect=[m["breaks_property"]], patch=os.path.join(os.path.dirname(mf), "patch.diff")))
    limits = json.load(open(os.path.join(VERIF, "selftest", "refactors", "LIMITS.json")))
    for pf in sorted(glob.glob(os.path.join(VERIF, "selftest", "refactors", "*.diff"))):      # behaviour-preserving rewrites written by sub-agents: silence required
        if os.path.basename(pf)[:-5] not in limits:      # documented limits of the normal form are not replayed (DESIGN 12.5)
            cat.append(dict(name="refactor:" + os.path.basename(pf)[:-5], file="", expect=[], patch=pf))
    known = {k["key"] for k in load_known().get("findings", [])}
    base = {o.key for o in chk.obligations if not o.ok}
    replayed = detected = silent_ok = skipped = 0
    missed = []
    todo = [v for v in cat if v.get("expect") is not None and (pid in v["expect"] or v["expect"] == [])]

    def one(v):
        """-> (status, detail): 'skipped' | 'new' (set of new keys) | 'error' (message)"""
        d = tempfile.mkdtemp(prefix="ptsc_")
        try:
            shutil.copytree(os.path.join(repo.root, "ptera"), d + "/ptera")
            if v.get("patch"):
                r = subprocess.run(["patch", "-p1", "-s", "-d", d, "-i", v["patch"]], capture_output=True, text=True)
                if r.returncode:
                    return "skipped", None
            else:
                fp = f"{d}/ptera/{v['file']}"
                src = open(fp).read()
                edits = v.get("edits") or [(v["old"], v["new"])]
                if any(src.count(o) != 1 for o, n in edits):
                    return "skipped", None
                for o, n in edits:
                    src = src.replace(o, n)
                open(fp, "w").write(src)
            c2 = Check(pid, "quick")
            try:
                mod.run(Repo(d), c2)
                if v["expect"] == [] and v["name"].startswith("refactor:"):
                    # a behaviour-preserving rewrite must not make an obligation of the pinned tree disappear either (the rule went blind)
                    from .report import load_inventory
                    have = {o.key for o in c2.obligations}
                    gone = [k for k in load_inventory().get(pid, []) if k not in have]
                    if gone:
                        return "error", f"{len(gone)} obligation(s) no longer produced: {gone[:3]}"
                return "new", sorted({o.key for o in c2.obligations if not o.ok} - base - known)
            except AnalysisError as e:
                return "error", str(e)
        finally:
            shutil.rmtree(d, ignore_errors=True)

    # the replays are independent: forked workers (the analyser holds no state between runs); VERIF_JOBS bounds them
    import multiprocessing
    jobs = max(1, int(os.environ.get("VERIF_JOBS", "0") or 0) or min(12, os.cpu_count() or 4))
    results = []
    if jobs > 1 and len(todo) > 4:
        ctx = multiprocessing.get_context("fork")
        chunks = [todo[i::jobs] for i in range(jobs)]

        def work(chunk, q):
            out = []
            for v in chunk:
                try:
                    out.append((v["name"], one(v)))
                except Exception as e:       # an internal error of the analyser on a variant
                    out.append((v["name"], ("error", f"internal error: {type(e).__name__}: {e}")))
            q.put(out)
        q = ctx.Queue()
        procs = [ctx.Process(target=work, args=(c, q)) for c in chunks if c]
        for p_ in procs:
            p_.start()
        got = {}
        for _ in procs:
            for name, res in q.get():
                got[name] = res
        for p_ in procs:
            p_.join()
        results = [(v, got.get(v["name"], ("error", "worker died"))) for v in todo]
    else:
        results = [(v, one(v)) for v in todo]
    for v, (status, detail) in results:
        exp = v["expect"]
        if status == "skipped":
            skipped += 1
            continue
        replayed += 1
        if status == "error":
            if exp == []:
                missed.append(f"{v['name']}: behaviour-preserving variant made the analysis fail ({detail})")
            else:
                detected += 1       # the change is not passed over in silence (reported as analysis failure)
            continue
        new = detail
        if exp == []:
            if new:
                missed.append(f"{v['name']}: behaviour-preserving variant reported {new[:2]}")
            else:
                silent_ok += 1
        elif new:
            detected += 1
        else:
            missed.append(f"{v['name']}: breaking variant not reported")
    chk.analysed["selfcheck"] = {"variants_replayed": replayed, "breaking_detected": detected, "preserving_silent": silent_ok, "skipped_anchor_absent": skipped}
    if missed:
        raise AnalysisError("self-check of the checker failed: " + "; ".join(missed[:4]))


def main(argv):
    import argparse
    ap = argparse.ArgumentParser()
    ap.add_argument("pid")
    ap.add_argument("--tier", default=os.environ.get("VERIF_TIER") or "quick", choices=["quick", "thorough"])
    ap.add_argument("--repo")
    ap.add_argument("--replay")
    a = ap.parse_args(argv)
    if a.repo:
        os.environ["VERIF_REPO"] = a.repo
    if a.replay:
        with open(a.replay) as f:
            data = json.load(f)
        for fd in data.get("findings", []):
            print(f"{fd['where']}: [{fd['rule']}] {fd['what']}\n    key: {fd['key']}")
            if fd.get("detail"):
                print("    detail:", json.dumps(fd["detail"], indent=1, default=str)[:2000])
        print("(re-running the check on the current tree)")
    from .core import AnalysisError, Repo
    from .report import Check
    pid = a.pid.upper()
    try:
        mod = importlib.import_module(f"sa.rules.{pid.lower()}")
    except ModuleNotFoundError:
        print(f"ANALYSIS-ERROR property={pid} no checker (property not claimed; see MANIFEST.json not_applicable)")
        return 2
    try:
        repo = Repo()
        chk = Check(pid, a.tier)
        chk.analysed["normal_form"] = {k: (v if not isinstance(v, list) else v[:12]) for k, v in sorted(repo.normal_stats.items())} or "source already in normal form"
        mod.run(repo, chk)
        if a.tier == "thorough" and not os.environ.get("VERIF_NO_SELFCHECK"):
            selfcheck(pid, mod, repo, chk)
        return chk.finish()
    except AnalysisError as e:
        print(f"ANALYSIS-ERROR property={pid} {e}")
        return 2
    except Exception:
        traceback.print_exc()
        print(f"ANALYSIS-ERROR property={pid} internal error in the analyser (not a verdict)")
        return 2


if __name__ == "__main__":
    sys.exit(main(sys.argv[1:]))
