"""Small AST query helpers shared by the rule modules."""
import ast

from .core import dotted, norm, walk_local

FLIP = {ast.Lt: ast.Gt, ast.Gt: ast.Lt, ast.LtE: ast.GtE, ast.GtE: ast.LtE, ast.Eq: ast.Eq, ast.NotEq: ast.NotEq,
        ast.Is: ast.Is, ast.IsNot: ast.IsNot}
NEG = {ast.Lt: ast.GtE, ast.GtE: ast.Lt, ast.Gt: ast.LtE, ast.LtE: ast.Gt, ast.Eq: ast.NotEq, ast.NotEq: ast.Eq,
       ast.Is: ast.IsNot, ast.IsNot: ast.Is, ast.In: ast.NotIn, ast.NotIn: ast.In}
OPNAME = {ast.Lt: "<", ast.Gt: ">", ast.LtE: "<=", ast.GtE: ">=", ast.Eq: "==", ast.NotEq: "!=", ast.Is: "is",
          ast.IsNot: "is not", ast.In: "in", ast.NotIn: "not in"}


def compare_normal(expr, left_is):
    """Normalise a single comparison to (opclass, other_operand_text) with the operand satisfying `left_is`
    (a predicate on nodes) placed on the left.  Handles operand flips and `not (...)`.  None if not that shape."""
    neg = False
    while isinstance(expr, ast.UnaryOp) and isinstance(expr.op, ast.Not):
        neg = not neg
        expr = expr.operand
    if not (isinstance(expr, ast.Compare) and len(expr.ops) == 1):
        return None
    op = type(expr.ops[0])
    a, b = expr.left, expr.comparators[0]
    if left_is(a) and not left_is(b):
        other = b
    elif left_is(b) and not left_is(a):
        if op not in FLIP:
            return None
        op, other = FLIP[op], a
    else:
        return None
    if neg:
        if op not in NEG:
            return None
        op = NEG[op]
    return op, other


def is_name(node, name):
    return isinstance(node, ast.Name) and node.id == name


def is_self_attr(node, attr=None):
    return (isinstance(node, ast.Attribute) and is_name(node.value, "self") and (attr is None or node.attr == attr))


def call_name(call):
    """Dotted name of the callee of a Call, or None."""
    return dotted(call.func) if isinstance(call, ast.Call) else None


def calls_named(root, *names, local=True):
    """Call nodes under root whose dotted callee name ends with one of `names` (full dotted match or last attr)."""
    out = []
    it = walk_local(root) if local and isinstance(root, (ast.FunctionDef, ast.AsyncFunctionDef)) else ast.walk(root)
    for n in it:
        if isinstance(n, ast.Call):
            d = call_name(n)
            last = n.func.attr if isinstance(n.func, ast.Attribute) else (n.func.id if isinstance(n.func, ast.Name) else None)
            if d in names or last in names:
                out.append(n)
    return out


def assigns_to(root, pred, local=True):
    """(stmt, target, value) for every assignment (incl. augmented/annotated) whose target satisfies pred."""
    out = []
    it = walk_local(root) if local and isinstance(root, (ast.FunctionDef, ast.AsyncFunctionDef)) else ast.walk(root)
    for n in it:
        if isinstance(n, ast.Assign):
            for t in n.targets:
                for tt in (t.elts if isinstance(t, (ast.Tuple, ast.List)) else [t]):
                    if pred(tt):
                        out.append((n, tt, n.value))
        elif isinstance(n, (ast.AugAssign, ast.AnnAssign)) and pred(n.target):
            out.append((n, n.target, n.value))
    return out


def stmt_of(node):
    """Enclosing statement of an expression node (needs _parent links from the loader)."""
    cur = node
    while cur is not None and not isinstance(cur, ast.stmt):
        cur = getattr(cur, "_parent", None)
    return cur


def enclosing(node, *classes):
    cur = getattr(node, "_parent", None)
    while cur is not None and not isinstance(cur, classes):
        cur = getattr(cur, "_parent", None)
    return cur


def ancestors(node):
    cur = getattr(node, "_parent", None)
    while cur is not None:
        yield cur
        cur = getattr(cur, "_parent", None)


def const_value(node, default=None):
    return node.value if isinstance(node, ast.Constant) else default


def kwarg(call, name):
    for k in call.keywords:
        if k.arg == name:
            return k.value
    return None


def returns_of(fn):
    return [n for n in walk_local(fn) if isinstance(n, ast.Return)]


def names_in(node):
    return {n.id for n in ast.walk(node) if isinstance(n, ast.Name)}


def parse_fixture(src):
    """Parse a fixture snippet and set parent links like the loader does."""
    tree = ast.parse(src)
    for parent in ast.walk(tree):
        for child in ast.iter_child_nodes(parent):
            child._parent = parent
    return tree
