"""Small AST query helpers shared by the rule modules."""
import ast

from .core import dotted, norm, walk_local

FLIP = {ast.Lt: ast.Gt, ast.Gt: ast.Lt, ast.LtE: ast.GtE, ast.GtE: ast.LtE, ast.Eq: ast.Eq, ast.NotEq: ast.NotEq,
        ast.Is: ast.Is, ast.IsNot: ast.IsNot}
NEG = {ast.Lt: ast.GtE, ast.GtE: ast.Lt, ast.Gt: ast.LtE, ast.LtE: ast.Gt, ast.Eq: ast.NotEq, ast.NotEq: ast.Eq,
       ast.Is: ast.IsNot, ast.IsNot: ast.Is, ast.In: ast.NotIn, ast.NotIn: ast.In}
OPNAME = {ast.Lt: "<", ast.Gt: ">", ast.LtE: "<=", ast.GtE: ">=", ast.Eq: "==", ast.NotEq: "!=", ast.Is: "is",
          ast.IsNot: "is not", ast.In: "in", ast.NotIn: "not in"}


def compare_normal(expr, left_is):
    """Normalise a single comparison to (opclass, other_operand_text) with the operand satisfying `left_is`
    (a predicate on nodes) placed on the left.  Handles operand flips and `not (...)`.  None if not that shape."""
    neg = False
    while isinstance(expr, ast.UnaryOp) and isinstance(expr.op, ast.Not):
        neg = not neg
        expr = expr.operand
    if not (isinstance(expr, ast.Compare) and len(expr.ops) == 1):
        return None
    op = type(expr.ops[0])
    a, b = expr.left, expr.comparators[0]
    if left_is(a) and not left_is(b):
        other = b
    elif left_is(b) and not left_is(a):
        if op not in FLIP:
            return None
        op, other = FLIP[op], a
    else:
        return None
    if neg:
        if op not in NEG:
            return None
        op = NEG[op]
    return op, other


def is_name(node, name):
    return isinstance(node, ast.Name) and node.id == name


def is_self_attr(node, attr=None):
    return (isinstance(node, ast.Attribute) and is_name(node.value, "self") and (attr is None or node.attr == attr))


def call_name(call):
    """Dotted name of the callee of a Call, or None."""
    return dotted(call.func) if isinstance(call, ast.Call) else None


def calls_named(root, *names, local=True):
    """Call nodes under root whose dotted callee name ends with one of `names` (full dotted match or last attr)."""
    out = []
    it = walk_local(root) if local and isinstance(root, (ast.FunctionDef, ast.AsyncFunctionDef)) else ast.walk(root)
    for n in it:
        if isinstance(n, ast.Call):
            d = call_name(n)
            last = n.func.attr if isinstance(n.func, ast.Attribute) else (n.func.id if isinstance(n.func, ast.Name) else None)
            if d in names or last in names:
                out.append(n)
    return out


def assigns_to(root, pred, local=True):
    """(stmt, target, value) for every assignment (incl. augmented/annotated) whose target satisfies pred."""
    out = []
    it = walk_local(root) if local and isinstance(root, (ast.FunctionDef, ast.AsyncFunctionDef)) else ast.walk(root)
    for n in it:
        if isinstance(n, ast.Assign):
            for t in n.targets:
                for tt in (t.elts if isinstance(t, (ast.Tuple, ast.List)) else [t]):
                    if pred(tt):
                        out.append((n, tt, n.value))
        elif isinstance(n, (ast.AugAssign, ast.AnnAssign)) and pred(n.target):
            out.append((n, n.target, n.value))
    return out


def stmt_of(node):
    """Enclosing statement of an expression node (needs _parent links from the loader)."""
    cur = node
    while cur is not None and not isinstance(cur, ast.stmt):
        cur = getattr(cur, "_parent", None)
    return cur


def enclosing(node, *classes):
    cur = getattr(node, "_parent", None)
    while cur is not None and not isinstance(cur, classes):
        cur = getattr(cur, "_parent", None)
    return cur


def ancestors(node):
    cur = getattr(node, "_parent", None)
    while cur is not None:
        yield cur
        cur = getattr(cur, "_parent", None)


def const_value(node, default=None):
    return node.value if isinstance(node, ast.Constant) else default


def kwarg(call, name):
    for k in call.keywords:
        if k.arg == name:
            return k.value
    return None


def returns_of(fn):
    return [n for n in walk_local(fn) if isinstance(n, ast.Return)]


def names_in(node):
    return {n.id for n in ast.walk(node) if isinstance(n, ast.Name)}


def parse_fixture(src):
    """Parse a fixture snippet and set parent links like the loader does."""
    tree = ast.parse(src)
    for parent in ast.walk(tree):
        for child in ast.iter_child_nodes(parent):
            child._parent = parent
    return tree


# ------------------------------------------------------------------------------------------------ path conditions
JUMPS = (ast.Return, ast.Raise, ast.Continue, ast.Break)


def ends_in_jump(body):
    """Every way through the statement list leaves it by return/raise/continue/break."""
    if not body:
        return False
    last = body[-1]
    if isinstance(last, JUMPS):
        return True
    if isinstance(last, ast.If) and last.orelse:
        return ends_in_jump(last.body) and ends_in_jump(last.orelse)
    return False


def literals(test, positive=True):
    """Conjunction of literal texts equivalent to `test` (or to its negation): negations pushed into comparisons,
    `and` split when positive, `or` split when negated.  The normal form in which conditions are compared."""
    if isinstance(test, ast.UnaryOp) and isinstance(test.op, ast.Not):
        return literals(test.operand, not positive)
    if isinstance(test, ast.Call) and isinstance(test.func, ast.Name) and test.func.id == "bool" and len(test.args) == 1 and not test.keywords:
        return literals(test.args[0], positive)          # as a condition, bool(x) is x
    if isinstance(test, ast.BoolOp):
        if isinstance(test.op, ast.And) == positive:
            out = []
            for v in test.values:
                out += literals(v, positive)
            return out
        # a disjunction (an `or`, or a negated `and`): ONE literal, in one of two spellings chosen by content only --
        # `a or b` (disjuncts in text order) or, when most disjuncts are negations, `not (x and y)`
        def conj(ls):
            return ls[0] if len(ls) == 1 else "(" + " and ".join(sorted(ls)) + ")"
        pos_ = [conj(literals(v, positive)) for v in test.values]
        neg_ = [conj(literals(v, not positive)) for v in test.values]
        if sum(1 for x in pos_ if x.startswith("not ")) * 2 > len(pos_):
            return ["not (" + " and ".join(sorted(x[1:-1] if x.startswith("(") and x.endswith(")") and x.count("(") == 1 else x for x in neg_)) + ")"]
        return [" or ".join(sorted(pos_))]
    if isinstance(test, ast.Compare) and len(test.ops) == 1:
        if positive:
            return [norm(test)]
        if type(test.ops[0]) in NEG:
            return [norm(ast.Compare(left=test.left, ops=[NEG[type(test.ops[0])]()], comparators=test.comparators))]
    if isinstance(test, ast.Constant) and isinstance(test.value, bool):
        return [] if test.value == positive else ["False"]
    t = norm(test)
    if positive:
        return [t]
    return [f"not {t}" if isinstance(test, (ast.Name, ast.Attribute, ast.Call, ast.Subscript)) else f"not ({t})"]


def lits(text, positive=True):
    """literals() of a condition given as source text: how a rule states the condition it expects."""
    return literals(ast.parse(text, mode="eval").body, positive)


def fallthrough_conds(block, upto=None):
    """Conditions known to hold after falling through the statements of `block` (up to statement `upto`): the negated
    tests of guard clauses (`if c: <jump>`), elif chains included."""
    out = []
    for s in block:
        if s is upto:
            break
        if isinstance(s, ast.If):
            bj, oj = ends_in_jump(s.body), ends_in_jump(s.orelse)
            if bj and not oj:
                out += literals(s.test, False) + fallthrough_conds(s.orelse)
            elif oj and not bj:
                out += literals(s.test, True) + fallthrough_conds(s.body)
    return out


def conds(node, root=None):
    """Conditions (literal texts, outermost first) known to hold whenever `node` is evaluated inside `root` (default:
    the enclosing function): enclosing if/while/conditional-expression/short-circuit tests with their polarity,
    comprehension filters, and the negated tests of earlier guard clauses (`if c: <return/raise/continue/break>`) in
    every enclosing block.  The same conditions come out whether the code is nested or written with guard clauses."""
    out = []
    child, cur = node, getattr(node, "_parent", None)
    while cur is not None and child is not root:
        here = []
        if isinstance(cur, (ast.If, ast.While)):
            if any(child is b for b in cur.body):
                here = literals(cur.test, True)
            elif any(child is b for b in cur.orelse) and isinstance(cur, ast.If):
                here = literals(cur.test, False)
        elif isinstance(cur, ast.IfExp):
            if child is cur.body:
                here = literals(cur.test, True)
            elif child is cur.orelse:
                here = literals(cur.test, False)
        elif isinstance(cur, ast.BoolOp):
            k = next((i for i, v in enumerate(cur.values) if v is child), 0)
            for v in cur.values[:k]:
                here += literals(v, isinstance(cur.op, ast.And))
        elif isinstance(cur, (ast.ListComp, ast.SetComp, ast.GeneratorExp, ast.DictComp)):
            if not any(child is g for g in cur.generators):
                for g in cur.generators:
                    for c in g.ifs:
                        here += literals(c, True)
        # earlier guard clauses in the block that holds `child`
        for fld in ("body", "orelse", "finalbody"):
            block = getattr(cur, fld, None)
            if isinstance(block, list) and any(child is b for b in block):
                here = here + fallthrough_conds(block, child)
        out = here + out
        if isinstance(cur, (ast.FunctionDef, ast.AsyncFunctionDef, ast.Lambda)) and root is None:
            break
        child, cur = cur, getattr(cur, "_parent", None)
    return resolve_units(out)


def _neg_text(l):
    """text of the negation of a literal, in the spelling literals() would give"""
    try:
        return literals(ast.parse(l, mode="eval").body, False)
    except SyntaxError:
        return None


def resolve_units(cs):
    """Unit resolution on a conjunction of literals: with `L` known, the disjunction `not L or M` is `M` (a guard clause
    `if A and not B: raise` followed by `if A:` leaves `B` on the second branch, exactly like the nested form).  A disjunct is dropped
    only when its negation is literally among the other conditions; order of the remaining conditions is kept."""
    out = list(cs)
    changed = True
    while changed:
        changed = False
        have = set(out)
        for i, c in enumerate(out):
            if " or " not in c or c.startswith("not ("):
                continue
            try:
                t = ast.parse(c, mode="eval").body
            except SyntaxError:
                continue
            if not (isinstance(t, ast.BoolOp) and isinstance(t.op, ast.Or)):
                continue
            keep = []
            for v in t.values:
                nv = literals(v, False)
                if len(nv) >= 1 and all(x in have for x in nv):
                    continue          # this disjunct is refuted by the other conditions
                keep.append(v)
            if len(keep) < len(t.values) and keep:
                repl = []
                if len(keep) == 1:
                    repl = literals(keep[0], True)
                else:
                    repl = literals(ast.BoolOp(op=ast.Or(), values=keep), True)
                out[i:i + 1] = [x for x in repl if x not in have]
                changed = True
                break
    return out


def returns_with_conds(fn):
    """[(conditions, value node or None, Return node)] of a function: the same whatever mix of else-branches and guard clauses is used."""
    out = []

    def split(cs, v, r):
        if isinstance(v, ast.IfExp):
            split(cs + literals(v.test, True), v.body, r)
            split(cs + literals(v.test, False), v.orelse, r)
        else:
            out.append((cs, v, r))
    for r in returns_of(fn):
        split(conds(r, fn), r.value, r)
    return [(expand_literals(cs, fn), v, r) for cs, v, r in out]


def expand_literals(lits, fn):
    """A condition that is just a once-assigned flag (`unwrapped`, `not unwrapped`) stands for the flag's definition."""
    defs = single_defs(fn)
    res = []
    for l in lits:
        neg = l.startswith("not ")
        nm = l[4:] if neg else l
        if nm.isidentifier() and nm in defs:
            res += literals(defs[nm], not neg)
        else:
            res.append(l)
    return res


def single_defs(fn):
    """{name: value node} for the locals of fn that merely name a value: bound exactly once by a plain `name = value`
    (parameters, loop targets etc. excluded), not a container being filled, never used as an object through the name (attribute or
    item stores, method calls), and defined from names that are themselves never rebound (so the definition means
    the same wherever the name is used)."""
    cached = getattr(fn, "_single_defs", None)
    if cached is not None:
        return cached
    count, val, mutated = {}, {}, set()
    for n in ast.walk(fn):
        if isinstance(n, ast.Name) and isinstance(n.ctx, (ast.Store, ast.Del)):
            count[n.id] = count.get(n.id, 0) + 1
        elif isinstance(n, ast.arg):
            count[n.arg] = count.get(n.arg, 0) + 1
            mutated.add(n.arg)          # a parameter is not a definition
        elif isinstance(n, (ast.Global, ast.Nonlocal)):
            for x in n.names:
                count[x] = count.get(x, 0) + 2
        elif isinstance(n, (ast.ExceptHandler,)) and n.name:
            count[n.name] = count.get(n.name, 0) + 2
        elif isinstance(n, (ast.FunctionDef, ast.AsyncFunctionDef, ast.ClassDef)) and n is not fn:
            count[n.name] = count.get(n.name, 0) + 1
        elif isinstance(n, (ast.Import, ast.ImportFrom)):
            for a in n.names:
                nm = (a.asname or a.name).split(".")[0]
                count[nm] = count.get(nm, 0) + 1
        if isinstance(n, ast.Assign) and len(n.targets) == 1 and isinstance(n.targets[0], ast.Name):
            val[n.targets[0].id] = n.value
        if isinstance(n, (ast.Attribute, ast.Subscript)) and isinstance(n.ctx, (ast.Store, ast.Del)):
            base = n.value
            while isinstance(base, (ast.Attribute, ast.Subscript)):
                base = base.value
            if isinstance(base, ast.Name):
                mutated.add(base.id)
        if isinstance(n, ast.Call) and isinstance(n.func, ast.Attribute) and isinstance(n.func.value, ast.Name):
            mutated.add(n.func.value.id)        # the receiver of a method call is an object (it may have identity and state), not just a value
        if isinstance(n, ast.AugAssign) and isinstance(n.target, ast.Name):
            mutated.add(n.target.id)

    def container(v):     # an accumulator being filled is not a name for a value
        return isinstance(v, (ast.List, ast.Dict, ast.Set)) or (isinstance(v, ast.Call) and isinstance(v.func, ast.Name) and
                                                                   (v.func.id == "defaultdict" or (v.func.id in ("list", "dict", "set") and not v.args and not v.keywords)))

    def stable(v):
        return all(count.get(x.id, 0) <= 1 for x in ast.walk(v) if isinstance(x, ast.Name))
    def pure_read(v):       # a name / attribute chain: the local is just another name for that object
        while isinstance(v, ast.Attribute):
            v = v.value
        return isinstance(v, ast.Name)
    params = {a.arg for a in ast.walk(fn) if isinstance(a, ast.arg)}
    out = {k: v for k, v in val.items() if count.get(k) == 1 and k not in params and (k not in mutated or pure_read(v)) and not container(v) and stable(v)}
    try:
        fn._single_defs = out
    except Exception:
        pass
    return out


def copy_tree(node):
    """Deep copy of a subtree that does not climb through the loader's _parent links."""
    import copy
    memo = {}
    par = getattr(node, "_parent", None)
    if par is not None:
        memo[id(par)] = None
    return copy.deepcopy(node, memo)


def expand(expr, fn, depth=3):
    """Text of expr with every once-assigned value name of fn (single_defs) replaced by its definition: the same text
    whether or not the code names intermediate values."""
    defs = single_defs(fn)
    if not any(isinstance(n, ast.Name) and n.id in defs for n in ast.walk(expr)):
        return norm(expr)

    class Sub(ast.NodeTransformer):
        def __init__(self, d):
            self.d = d

        def visit_Name(self, n):
            if isinstance(n.ctx, ast.Load) and n.id in defs and self.d > 0:
                return Sub(self.d - 1).visit(copy_tree(defs[n.id]))
            return n
    return norm(Sub(depth).visit(copy_tree(expr)))


def facts_of(fi_or_node):
    node = getattr(fi_or_node, "node", fi_or_node)
    f = getattr(node, "_facts", None)
    if f is None:
        f = node._facts = Facts(node)
    return f


class Facts:
    """Statements and calls of a function as texts that do not depend on how the code names intermediate values or
    nests its conditions: once-assigned value names are expanded (`expand`), and each text comes with the conditions
    under which it runs (`conds`, expanded alike).  Rules ask `has(text, when=[...])` instead of matching source text.
    Both the expanded and the plain reading of a statement / condition are accepted by the queries."""

    def __init__(self, fn):
        self.fn = fn
        self.items = []          # (expanded text, conditions in both readings (expanded first), node)
        self.plain = {}          # id(node) -> (plain text, plain conditions, expanded conditions)
        cache = {}

        def xc(n):
            out, raw = [], []
            for c in conds(n, None if _inner_function(n, fn) else fn):
                if c not in cache:
                    try:
                        cache[c] = " or ".join(sorted(expand(ast.parse(x, mode="eval").body, fn) for x in c.split(" or "))) if " or " in c else expand(ast.parse(c, mode="eval").body, fn)
                    except SyntaxError:
                        cache[c] = c
                    # the expansion of a flag may itself be a compound condition (a conjunction, bool(x), a negated comparison): state it as literals
                    try:
                        relit = literals(ast.parse(cache[c], mode="eval").body, True)
                    except SyntaxError:
                        relit = [cache[c]]
                    cache[c] = relit
                out.extend(cache[c])
                raw.append(c)
            return tuple(out), tuple(raw)

        def add(text, plain, n, extra=()):
            c, raw = xc(n)
            for e in extra:
                try:
                    x = expand(ast.parse(e, mode="eval").body, fn)
                except SyntaxError:
                    x = e
                c, raw = c + (x,), raw + (e,)
            self.items.append((text, tuple(dict.fromkeys(c + raw)), n))
            self.plain[id(n)] = (plain, raw, c)

        def split(n, value, make, extra=()):
            """`x = a if c else b` / `return a if c else b` / `f(a if c else b)` also count as the two guarded statements."""
            if isinstance(value, ast.IfExp):
                split(n, value.body, make, extra + tuple(literals(value.test, True)))
                split(n, value.orelse, make, extra + tuple(literals(value.test, False)))
            elif extra:
                clone = _Split(n)
                add(make(expand(value, fn)), make(norm(value)), clone, extra)

        def split_call_args(n, call):
            """A statement that is one call with conditional-expression arguments: one guarded statement per combination (at most two such arguments)."""
            slots = [("a", i) for i, a_ in enumerate(call.args) if isinstance(a_, ast.IfExp)] + [("k", i) for i, k_ in enumerate(call.keywords) if isinstance(k_.value, ast.IfExp)]
            if not slots or len(slots) > 2:
                return
            import itertools

            def alts(e):
                if isinstance(e, ast.IfExp):
                    return [(tuple(literals(e.test, True)) + c, v) for c, v in alts(e.body)] + [(tuple(literals(e.test, False)) + c, v) for c, v in alts(e.orelse)]
                return [((), e)]
            choices = [alts(call.args[i] if kind == "a" else call.keywords[i].value) for kind, i in slots]
            for combo in itertools.product(*choices):
                c2 = copy_tree(call)
                extra = ()
                for (kind, i), (cs, v) in zip(slots, combo):
                    if kind == "a":
                        c2.args[i] = v
                    else:
                        c2.keywords[i].value = v
                    extra += cs
                add(expand(c2, fn), norm(c2), _Split(n), extra)
        for n in ast.walk(fn):
            if n is fn:
                continue
            if isinstance(n, (ast.For, ast.AsyncFor)):
                add(f"for {norm(n.target)} in {expand(n.iter, fn)}", f"for {norm(n.target)} in {norm(n.iter)}", n)
            elif isinstance(n, (ast.With, ast.AsyncWith)):
                add("with " + ", ".join(expand(i.context_expr, fn) + (f" as {norm(i.optional_vars)}" if i.optional_vars is not None else "") for i in n.items),
                    "with " + ", ".join(norm(i.context_expr) + (f" as {norm(i.optional_vars)}" if i.optional_vars is not None else "") for i in n.items), n)
            elif isinstance(n, ast.stmt) and not isinstance(n, (ast.If, ast.While, ast.Try, ast.FunctionDef, ast.AsyncFunctionDef, ast.ClassDef, ast.Match)):
                add(expand(n, fn), norm(n), n)
                if isinstance(n, ast.Return) and isinstance(n.value, ast.IfExp):
                    split(n, n.value, lambda v: f"return {v}")
                elif isinstance(n, ast.Assign) and isinstance(n.value, ast.IfExp):
                    tg = " = ".join(norm(t) for t in n.targets)
                    split(n, n.value, lambda v, tg=tg: f"{tg} = {v}")
                elif isinstance(n, ast.Expr) and isinstance(n.value, ast.Call):
                    split_call_args(n, n.value)
            elif isinstance(n, ast.Call):
                add(expand(n, fn), norm(n), n)

    def _match(self, item, text, when, exactly):
        t, c, n = item
        pt, pc, xc = self.plain[id(n)]
        if text is not None and text != t and text != pt:
            return False
        if when is not None and not set(when) <= set(c):
            return False
        if exactly is not None and sorted(set(exactly)) not in (sorted(set(xc)), sorted(set(pc))):
            return False
        return True

    def find(self, text, when=None, exactly=None):
        return [it[2] for it in self.items if self._match(it, text, when, exactly)]

    def has(self, text, when=None, exactly=None):
        return bool(self.find(text, when, exactly))

    def mentions(self, fragment):
        return any(fragment in t or fragment in self.plain[id(n)][0] for t, _, n in self.items)

    def bound_to(self, text):
        """Names assigned (by a plain assignment) from an expression with this (expanded or plain) text."""
        out = []
        for t, c, n in self.items:
            if isinstance(n, ast.Assign) and len(n.targets) == 1 and isinstance(n.targets[0], ast.Name) and f"{n.targets[0].id} = {text}" in (t, self.plain[id(n)][0]):
                out.append(n.targets[0].id)
        return out

    def loops(self, node):
        """Headers (`for <target> in <iter>`, innermost last) of the loops of this function that enclose node."""
        out = []
        cur = getattr(node, "_parent", None)
        while cur is not None and cur is not self.fn:
            if isinstance(cur, (ast.For, ast.AsyncFor)) and not any(node is x for s in cur.orelse for x in ast.walk(s)):
                out.append(f"for {norm(cur.target)} in {iter_text(ast.parse(expand(cur.iter, self.fn), mode='eval').body)}")
            elif isinstance(cur, ast.While):
                out.append(f"while {expand(cur.test, self.fn)}")
            cur = getattr(cur, "_parent", None)
        return list(reversed(out))

    def starting(self, prefix):
        """[(text, conditions, node)] of the statements/calls whose expanded or plain text starts with prefix (conditions: both readings merged)."""
        return [(t, c, n) for t, c, n in self.items if t.startswith(prefix) or self.plain[id(n)][0].startswith(prefix)]

    def conds_of(self, text):
        return [list(c) for t, c, n in self.items if text in (t, self.plain[id(n)][0])]


class _Split(ast.stmt):
    """One branch of a statement whose value is a conditional expression (see Facts): stands where the statement stands."""
    _fields = ()

    def __init__(self, origin=None):
        super().__init__()
        self.origin = origin
        self._parent = getattr(origin, "_parent", None)
        self._ord = getattr(origin, "_ord", 0)
        self.lineno = getattr(origin, "lineno", 0)
        self.kind = type(origin)


def _inner_function(n, fn):
    cur = getattr(n, "_parent", None)
    while cur is not None and cur is not fn:
        if isinstance(cur, (ast.FunctionDef, ast.AsyncFunctionDef, ast.Lambda)):
            return True
        cur = getattr(cur, "_parent", None)
    return False


def decision_list(fn):
    """A function made only of if/elif/else and return (conditional expressions included), read as an ordered list
    [(test nodes with polarity [(node, positive)], value node)]: the first entry whose tests all hold gives the result.
    Exact for side-effect-free tests, whatever mix of nesting, else-branches and guard clauses the code uses.
    Returns (entries, impure statements)."""
    entries, impure = [], []

    def value(ctx, v):
        if isinstance(v, ast.IfExp):
            value(ctx + [(v.test, True)], v.body)
            value(ctx + [(v.test, False)], v.orelse)
        else:
            entries.append((ctx, v))

    def block(body, ctx):
        """True when every way through the block returns."""
        for st in body:
            if isinstance(st, ast.Return):
                value(ctx, st.value if st.value is not None else ast.Constant(None))
                return True
            if isinstance(st, ast.If):
                a = block(st.body, ctx + [(st.test, True)])
                b = block(st.orelse, ctx + [(st.test, False)]) if st.orelse else False
                if a and b:
                    return True
                if not a and st.body and not all(isinstance(x, (ast.Return, ast.If, ast.Pass)) for x in st.body):
                    pass
                continue
            if isinstance(st, ast.Expr) and isinstance(st.value, ast.Constant):
                continue
            if isinstance(st, ast.Pass):
                continue
            impure.append(st)
        return False
    if not block(fn.body, []):
        entries.append(([], ast.Constant(None)))
    # a row whose test is a disjunction is one row per disjunct (same result, first match unchanged)
    out = []
    for tests, v in entries:
        alts = [[]]
        for t0, pos0 in tests:
            t, pos = t0, pos0
            while isinstance(t, ast.UnaryOp) and isinstance(t.op, ast.Not):
                t, pos = t.operand, not pos
            if pos0 and isinstance(t, ast.BoolOp) and isinstance(t.op, ast.Or) == pos:      # the row's own test `a or b` / `not (a and b)`; negations inherited from an else-branch stay whole
                alts = [a + [(d, pos)] for d in t.values for a in alts]
            else:
                alts = [a + [(t0, pos0)] for a in alts]
        if len(alts) > 8:
            alts = [list(tests)]
        # keep the source order of the disjuncts of the first disjunction
        out += [(a, v) for a in alts]
    return out, impure


def split_tests(tests):
    """[(node, positive)] -> literal texts (conjunction), via literals()."""
    out = []
    for t, pos in tests:
        out += literals(t, pos)
    return out


def str_parts(expr):
    """Parts of a string-building expression in normal form (a JoinedStr after sa.normal): literal text as is, holes as `{source}`."""
    if isinstance(expr, ast.Constant) and isinstance(expr.value, str):
        return [expr.value]
    if isinstance(expr, ast.JoinedStr):
        out = []
        for v in expr.values:
            if isinstance(v, ast.Constant):
                out.append(v.value)
            else:
                out.append("{" + norm(v.value) + ("" if v.format_spec is None else ":" + norm(v.format_spec)) + "}")
        return out
    return None


def iter_text(expr):
    """Text of an expression that is only ITERATED (the iterable of a for / comprehension): a list display and a tuple display are the same
    sequence there, so `d.get(k, [])` / `d.get(k, ())` and `xs or [a]` / `xs or (a,)` read alike (displays are printed as tuples)."""
    e = copy_tree(expr)

    def tup(x):
        return ast.Tuple(elts=x.elts, ctx=ast.Load()) if isinstance(x, ast.List) and not any(isinstance(y, ast.Starred) for y in x.elts) else x
    e = tup(e)
    if isinstance(e, ast.BoolOp):
        e.values = [tup(v) for v in e.values]
    if isinstance(e, ast.IfExp):
        e.body, e.orelse = tup(e.body), tup(e.orelse)
    if isinstance(e, ast.Call) and isinstance(e.func, ast.Attribute) and e.func.attr == "get" and len(e.args) == 2:
        e.args[1] = tup(e.args[1])
    return norm(e)


def returned_list_sources(fn, value=None, at=None):
    """(With `value`: what that expression -- a comprehension, a display, tuple(<accumulator>) ... -- is made of, under conditions `at`.)
    What the list a function returns is made of, whatever the spelling (a display / comprehension returned per branch, an accumulator
    filled with append / extend / += and returned at the end): a set of (conditions, loops, "the item" | "each of", source text), or
    None when a return is not understood.  Conditions and loops are the normalised texts of conds() and of the enclosing for headers."""
    out = set()

    def key(cs):
        return " and ".join(sorted(cs))

    def loops_of(node, stop):
        hs = []
        cur = getattr(node, "_parent", None)
        while cur is not None and cur is not stop:
            if isinstance(cur, ast.For):
                hs.append(f"for {norm(cur.target)} in {iter_text(cur.iter)}")
            cur = getattr(cur, "_parent", None)
        return tuple(reversed(hs))

    def from_value(v, cs, loops):
        if isinstance(v, (ast.List, ast.Tuple)):
            for e in v.elts:
                if isinstance(e, ast.Starred):
                    out.add((key(cs), loops, "each of", norm(e.value)))
                else:
                    out.add((key(cs), loops, "the item", norm(e)))
            return True
        if isinstance(v, ast.ListComp):
            gens = v.generators
            hs = tuple(f"for {norm(g.target)} in {iter_text(g.iter)}" for g in gens)
            extra = [norm(c) for g in gens for c in g.ifs]
            if isinstance(v.elt, ast.Name) and isinstance(gens[-1].target, ast.Name) and gens[-1].target.id == v.elt.id and not gens[-1].ifs and len(gens) >= 2:
                out.add((key(list(cs) + extra), loops + hs[:-1], "each of", norm(gens[-1].iter)))
            else:
                out.add((key(list(cs) + extra), loops + hs, "the item", norm(v.elt)))
            return True
        if isinstance(v, ast.Call) and isinstance(v.func, ast.Name) and v.func.id == "list" and len(v.args) == 1:
            out.add((key(cs), loops, "each of", norm(v.args[0])))
            return True
        return False
    todo = returns_with_conds(fn) if value is None else [(list(at or []), value, None)]
    for cs, v, r in todo:
        if v is None:
            return None
        while isinstance(v, ast.Call) and isinstance(v.func, ast.Name) and v.func.id in ("tuple", "list") and len(v.args) == 1 and isinstance(v.args[0], ast.Name):
            v = v.args[0]
        if isinstance(v, ast.Name):
            acc = v.id
            inits = [n for n in ast.walk(fn) if isinstance(n, ast.Assign) and len(n.targets) == 1 and is_name(n.targets[0], acc)]
            if len(inits) != 1 or not (isinstance(inits[0].value, ast.List) and not inits[0].value.elts):
                return None
            uses = [n for n in ast.walk(fn) if isinstance(n, ast.Name) and n.id == acc]
            seen = 2        # the initialisation and this return
            for n in ast.walk(fn):
                if isinstance(n, ast.Expr) and isinstance(n.value, ast.Call) and isinstance(n.value.func, ast.Attribute) and is_name(n.value.func.value, acc) \
                        and n.value.func.attr in ("append", "extend") and len(n.value.args) == 1:
                    c2 = conds(n, fn)
                    a = n.value.args[0]
                    if n.value.func.attr == "append":
                        out.add((key(c2), loops_of(n, fn), "the item", norm(a)))
                    elif not from_value(a, c2, loops_of(n, fn)):
                        out.add((key(c2), loops_of(n, fn), "each of", norm(a)))
                    seen += 1
                elif isinstance(n, ast.AugAssign) and is_name(n.target, acc) and isinstance(n.op, ast.Add):
                    c2 = conds(n, fn)
                    if not from_value(n.value, c2, loops_of(n, fn)):
                        out.add((key(c2), loops_of(n, fn), "each of", norm(n.value)))
                    seen += 2 if False else 1
            extra_returns = len([r2 for r2 in returns_of(fn) if is_name(r2.value, acc)]) - 1 if value is None else 0
            if seen != len(uses) - extra_returns:
                return None
        elif not from_value(v, cs, ()):
            return None
    return out


def concat_parts(e):
    """A sequence expression as the list of what it is put together from, whichever way the concatenation is spelled:
    `A + (x, y)`, `(*A, x, y)`, `[*A, *B]`, `A + B` -> [("seq", A), ("item", x), ("item", y)] ...  Anything else is one ("seq", e)."""
    if isinstance(e, ast.BinOp) and isinstance(e.op, ast.Add):
        return concat_parts(e.left) + concat_parts(e.right)
    if isinstance(e, (ast.Tuple, ast.List)) and isinstance(getattr(e, "ctx", ast.Load()), ast.Load):
        return [("seq", x.value) if isinstance(x, ast.Starred) else ("item", x) for x in e.elts]
    return [("seq", e)]


class _Unknown(Exception):
    pass


_FLIP = {ast.Is: ast.IsNot, ast.IsNot: ast.Is, ast.Eq: ast.NotEq, ast.NotEq: ast.Eq, ast.In: ast.NotIn, ast.NotIn: ast.In,
         ast.Lt: ast.GtE, ast.GtE: ast.Lt, ast.Gt: ast.LtE, ast.LtE: ast.Gt}


def truth_of(e, val):
    """Truth value of the condition e when the atoms (normalised texts) have the truth values `val`; raises _Unknown for anything that is
    not built from the atoms with not / and / or / bool() / conditional expressions / comparisons spelled either way round."""
    if isinstance(e, ast.Constant) and isinstance(e.value, bool):
        return e.value
    t = norm(e)
    if t in val:
        return val[t]
    if isinstance(e, ast.UnaryOp) and isinstance(e.op, ast.Not):
        return not truth_of(e.operand, val)
    if isinstance(e, ast.BoolOp):
        vs = [truth_of(v, val) for v in e.values]
        return all(vs) if isinstance(e.op, ast.And) else any(vs)
    if isinstance(e, ast.Call) and isinstance(e.func, ast.Name) and e.func.id == "bool" and len(e.args) == 1 and not e.keywords:
        return truth_of(e.args[0], val)
    if isinstance(e, ast.IfExp):
        return truth_of(e.body, val) if truth_of(e.test, val) else truth_of(e.orelse, val)
    if isinstance(e, ast.Compare) and len(e.ops) == 1 and type(e.ops[0]) in _FLIP:
        flipped = ast.Compare(left=e.left, ops=[_FLIP[type(e.ops[0])]()], comparators=e.comparators)
        if norm(flipped) in val:
            return not val[norm(flipped)]
        if isinstance(e.ops[0], (ast.Eq, ast.NotEq)):
            sw = ast.Compare(left=e.comparators[0], ops=[type(e.ops[0])()], comparators=[e.left])
            if norm(sw) in val:
                return val[norm(sw)]
            sw = ast.Compare(left=e.comparators[0], ops=[_FLIP[type(e.ops[0])]()], comparators=[e.left])
            if norm(sw) in val:
                return not val[norm(sw)]
    raise _Unknown(t)


def truth_table(fn, atoms):
    """{valuation tuple: True | False | "?"}: what the predicate `fn` (if / elif / else over returns of conditions; once-assigned flags are
    read through) answers for every truth assignment of the atoms."""
    import itertools
    out = {}

    def run(stmts, val, env):
        for st in stmts:
            if isinstance(st, ast.Expr) and isinstance(st.value, ast.Constant):
                continue
            if isinstance(st, ast.Return):
                if st.value is None:
                    raise _Unknown("return None")
                return truth_of(_through(st.value, env), val)
            if isinstance(st, ast.If):
                r = run(st.body if truth_of(_through(st.test, env), val) else st.orelse, val, env)
                if r is not None:
                    return r
                continue
            if isinstance(st, ast.Assign) and len(st.targets) == 1 and isinstance(st.targets[0], ast.Name):
                env = dict(env, **{st.targets[0].id: _through(st.value, env)})
                continue
            if isinstance(st, ast.Pass):
                continue
            raise _Unknown(norm(st)[:40])
        return None

    def _through(e, env):
        if not env:
            return e
        import copy

        class S(ast.NodeTransformer):
            def visit_Name(self, n):
                return copy.deepcopy(env[n.id]) if n.id in env and isinstance(n.ctx, ast.Load) else n
        return S().visit(copy.deepcopy(e))
    for bits in itertools.product([False, True], repeat=len(atoms)):
        val = dict(zip(atoms, bits))
        try:
            r = run(fn.body, val, {})
            out[bits] = "?" if r is None else r
        except _Unknown:
            out[bits] = "?"
    return out
