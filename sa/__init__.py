"""Static-analysis machinery for the ptera properties (pure stdlib; never imports or runs ptera)."""
