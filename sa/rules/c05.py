"""C05 - exactly-once while active, no trace afterwards: rollback on exception edges, inverse pairing,
ContextVar token discipline, base code iff nothing is active."""
import ast

from ..astq import compare_normal, conds, expand, facts_of, is_name, returns_with_conds, is_self_attr, kwarg, parse_fixture, returns_of
from ..callgraph import CallGraph
from ..cfg import CFG
from ..core import AnalysisError, call_name, norm, walk_local, FuncInfo
from ..pairing import (classify_stmt, contextvars_of, journal_findings, node_probe, released_on_all_normal_paths, rollback_findings)

PAIRS = [
    # (acquiring method, releasing method, why they are a pair)
    ("probe.Probe._enter", "probe.Probe._exit", "SourceProxy.__enter__/__exit__ call them on the root probe"),
    ("overlay.BaseOverlay.__enter__", "overlay.BaseOverlay.__exit__", "context manager protocol"),
    ("overlay.proceed.__enter__", "overlay.proceed.__exit__", "context manager protocol (generated `with proceed(f)`)"),
    ("transform.StackedTransforms.push", "transform.StackedTransforms.pop", "reference counting of capture sets"),
    ("transform.SyncedStackedTransforms.push", "transform.SyncedStackedTransforms.pop", "reference counting + code swap"),
    ("overlay._tooler", "overlay._untooler", "wrap_functions(_tooler) / wrap_functions(_untooler)"),
    ("probe.Probe._install_tooling", "probe.Probe._uninstall_tooling", "called from _enter / _exit"),
]


# guards whose false branch needs no release, one reason each
GUARD_EXEMPT = {
    "overlay._untooler": ("hasattr(fn, '__ptera_stack__')",),   # no stack => _tooler never pushed on this function
}


def acquire_functions(repo, ctxvars, cg):
    out = []
    for q, fi in repo.functions.items():
        wrap = None   # (the traversal itself is not an acquire site: its caller owns the rollback, see is_partial_acquire)
        for n in walk_local(fi.node):
            if isinstance(n, ast.stmt) and not isinstance(n, (ast.FunctionDef, ast.ClassDef, ast.If, ast.For, ast.While, ast.With, ast.Try)):
                if any(k == "acq" for _, k, _ in classify_stmt(n, ctxvars, wrap)):
                    out.append((fi, wrap))
                    break
    return out


def token_sites(repo, ctxvars):
    """Every ContextVar.set site with where its token goes and where it is reset."""
    sites = []
    for q, fi in repo.functions.items():
        for n in walk_local(fi.node):
            if isinstance(n, ast.Call) and isinstance(n.func, ast.Attribute) and n.func.attr == "set" \
                    and any(norm(n.func.value).endswith(cv) for cv in ctxvars):
                st = n
                while not isinstance(st, ast.stmt):
                    st = st._parent
                tok = norm(st.targets[0]) if isinstance(st, ast.Assign) else None
                sites.append((fi, n, st, tok))
    return sites


def run(repo, chk):
    chk.explanation = (
        "Decides the structural clauses of C05 on the CFG (with exception edges) of every function that acquires an "
        "instrumentation resource: (R05.1) after an acquire, every path to the exceptional exit passes the matching release; "
        "(R05.2) each exit-like method releases, on all normal paths, every resource its enter-like partner acquires, with the same "
        "guards, the same token attribute, inverse counter updates on the same keys, and a code re-install after every counter "
        "change; (R05.3) ContextVar tokens are reset either in a finally of the same function or by a paired method that is only "
        "reachable through `with`; public non-with entry points are reported; (R05.4) the base variant is selected exactly when the "
        "instrument count is zero; (R05.5) overlay activation extends (never replaces) the current collection; (R05.6) one "
        "instrumentation stack per function. Exactly-once delivery given correct installation is a runtime fact and is not decided.")
    chk.not_decided += ["exactly-once delivery of events given correct installation", "the set of histories in which a reported non-LIFO path is actually taken"]
    chk.assumptions += ["external calls not listed in callgraph.EXTERNAL_RAISES are assumed not to raise (keeps R05.1 free of false alarms)",
                        "context managers do not swallow exceptions"]
    chk.rule("R05.1", "rollback on exception edges: after an acquire, every path to the function's exceptional exit passes a release of the same resource", 8)
    chk.rule("R05.2", "inverse pairing: the exit-like method releases on every normal path what the enter-like method acquires; same guard; same token; inverse updates; counters changes followed by _apply", 14)
    chk.rule("R05.3", "ContextVar tokens are used LIFO only: reset in a finally of the same function, or stored on self and reset by the paired method with every client going through `with`", 3)
    chk.rule("R05.4", "base code iff nothing is active: variant key None exactly under instrument_count == 0; the untouched function is registered under None", 4)
    chk.rule("R05.5", "activating an overlay extends the current handler collection (plus) and installs exactly that collection", 3)
    chk.rule("R05.6", "one instrumentation stack per function: a new stack is created only when the function has none", 1)

    cg = CallGraph(repo)
    ctxvars = contextvars_of(repo)
    if not ctxvars:
        raise AnalysisError("no ContextVar found in the package (anchor HandlerCollection.current vanished)")
    chk.analysed["call_resolution"] = cg.stats
    chk.analysed["contextvars"] = sorted(ctxvars)

    # ---- fixtures for the rollback kernel
    fx_bad = parse_fixture("def f(self, c):\n    self.st.push(c)\n    raise ValueError()\n").body[0]
    fx_good = parse_fixture("def f(self, c):\n    self.st.push(c)\n    try:\n        g()\n        raise ValueError()\n    except BaseException:\n        self.st.pop(c)\n        raise\n").body[0]

    class _FakeCG:
        def stmt_may_raise(self, fi):
            from ..cfg import default_may_raise
            return default_may_raise
    chk.fixture("R05.1", "push then raise without pop", True, bool(rollback_findings(FuncInfo("fx.bad", fx_bad, "fx", None, None), _FakeCG(), ctxvars)[1]))
    chk.fixture("R05.1", "push, failure handler pops and re-raises", False, bool(rollback_findings(FuncInfo("fx.good", fx_good, "fx", None, None), _FakeCG(), ctxvars)[1]))

    # ---- R05.1
    for fi, wrap in acquire_functions(repo, ctxvars, cg):
        sites, findings = rollback_findings(fi, cg, ctxvars, wrap)
        chk.count("functions with acquire sites")
        chk.count("acquire sites", sites)
        bad = {}
        for res, acq, culprit, path in findings:
            bad.setdefault((res, acq), []).append((culprit, path))
        g = CFG(fi.node, cg.stmt_may_raise(fi))
        for n in g.nodes:
            pr = node_probe(n) if n.stmt is not None else None
            for res, kind, detail in (classify_stmt(pr, ctxvars, wrap) if pr is not None else []):
                if kind != "acq":
                    continue
                acq = norm(pr)[:80]
                acq_key = call_name(pr)
                for culprit, path in bad.get((res, acq), []):
                    same = culprit == acq
                    chk.ob("R05.1", f"{fi.qual}:{res}:after[{acq_key}]:raises[{culprit}]", False, fi.where,
                           (f"`{acq}` ({detail}) can fail half-way (after tooling some selector levels) and " if same else
                            f"after `{acq}` ({detail}) the statement `{culprit}` may raise and ") +
                           f"leaves {fi.qual} without releasing {res}", detail={"path": path})
                if (res, acq) not in bad:
                    chk.ob("R05.1", f"{fi.qual}:{res}:after[{acq_key}]", True, fi.where,
                           f"no exceptional exit after `{acq}` misses the release of {res}")

    # journaled rollbacks release exactly what was acquired
    for fi, wrap in acquire_functions(repo, ctxvars, cg):
        for journal, res, site, ok, detail in journal_findings(repo, fi, cg, ctxvars):
            chk.ob("R05.1", f"{fi.qual}:journal[{journal}]:records-only-completed-acquires[{site}]", ok, fi.where,
                   f"the rollback journal `{journal}` of {fi.qual} is appended to only after the {res} acquire it records" if ok else detail)

    # ---- R05.2
    from .shared import refused_exit_obligations
    refused_exit_obligations(repo, chk, "R05.2")
    from .shared import push_under_lock_obligations
    push_under_lock_obligations(repo, chk, "R05.2", "two probes activated at the same time on one function both end up in the installed variant (a stale variant built outside the lock is not installed over a newer one)")
    from .shared import count_integrity_obligations
    count_integrity_obligations(repo, chk, "R05.2", "every probe that is still active keeps its variables instrumented whatever the others do")
    for acq_q, rel_q, why in PAIRS:
        a, r = repo.func(acq_q), repo.func(rel_q)
        wanted, loops = {}, {}
        for st in walk_local(a.node):
            if isinstance(st, ast.stmt) and not isinstance(st, (ast.If, ast.For, ast.While, ast.With, ast.Try, ast.FunctionDef)):
                for res, kind, detail in classify_stmt(st, ctxvars):
                    if kind == "acq":
                        wanted[res] = detail
                        loops[res] = loop_iter(st)
        if not wanted:
            chk.ob("R05.2", f"{acq_q}:acquires-something", False, a.where, f"{acq_q} no longer acquires any tracked resource ({why})")
        for res, detail in sorted(wanted.items()):
            guard = None
            if acq_q == "overlay.BaseOverlay.__enter__":
                # the guard `if self.handlers` wraps both: release is required only under the same condition (checked below)
                ok, path, nrel = released_under_guard(r, res, ctxvars, guard_of(a.node, "set", ctxvars))
            else:
                exempt = list(GUARD_EXEMPT.get(rel_q, ()))
                if rel_q == "overlay._untooler":
                    # other spellings of "this function has no stack": `st is not None` / `st` with st = getattr(fn, '__ptera_stack__', None)
                    fr = facts_of(r)
                    p0 = r.node.args.args[0].arg
                    for v_ in fr.bound_to(f"getattr({p0}, '__ptera_stack__', None)"):
                        exempt += [f"{v_} is not None", v_]
                ok, path, nrel = released_on_all_normal_paths(r, res, ctxvars, acq_loop_iter=loops.get(res), cut_false_of=tuple(exempt))
            chk.ob("R05.2", f"{rel_q}:releases:{res}", ok, r.where,
                   f"{rel_q} releases {res} (acquired by {detail} in {acq_q}) on every normal path"
                   + ("" if ok else f" -- {'no release statement found' if not nrel else 'path without release: ' + ' -> '.join(path or [])}"))
    # same guard in BaseOverlay
    en, ex = repo.func("overlay.BaseOverlay.__enter__"), repo.func("overlay.BaseOverlay.__exit__")
    g1, g2 = guard_of(en.node, "set", ctxvars), guard_of(ex.node, "reset", ctxvars)
    chk.ob("R05.2", "overlay.BaseOverlay:same-guard", g1 is not None and g1 == g2, ex.where,
           f"__exit__ resets iff __enter__ set: guards `{g1}` / `{g2}`")
    # token attribute agreement
    for cls in ("overlay.BaseOverlay", "overlay.proceed"):
        en, ex = repo.func(f"{cls}.__enter__"), repo.func(f"{cls}.__exit__")
        toks = [tok for fi, call, st, tok in token_sites(repo, ctxvars) if fi.qual == en.qual]
        resets = [norm(c.args[0]) for c in ast.walk(ex.node) if isinstance(c, ast.Call) and isinstance(c.func, ast.Attribute)
                  and c.func.attr == "reset" and c.args]
        chk.ob("R05.2", f"{cls}:token-agreement", len(toks) == 1 and toks[0] is not None and resets == [toks[0]], ex.where,
               f"__exit__ resets with the token __enter__ stored ({toks} vs {resets})")
        from ..pairing import raising_before_release
        cvres = f"ctxvar:{[c for c in ctxvars if 'current' in c][0]}"
        early = raising_before_release(ex, cvres, ctxvars, cg)
        chk.ob("R05.2", f"{cls}.__exit__:nothing-may-raise-before-the-reset", not early, ex.where,
               "the execution context is restored before anything that may raise runs (closing accumulators calls user callbacks): an exception in a close handler cannot leave the inner collection installed"
               + (f" -- may raise first: {early}" if early else ""))
    # inverse counter updates
    pu, po = repo.func("transform.StackedTransforms.push"), repo.func("transform.StackedTransforms.pop")
    ups = lambda fn: sorted((norm(n.target), type(n.op).__name__, norm(n.value), loop_iter(n)) for n in walk_local(fn.node) if isinstance(n, ast.AugAssign))
    u1, u2 = ups(pu), ups(po)
    inv = len(u1) == len(u2) == 2 and all(a[0] == b[0] and a[2] == b[2] and a[3] == b[3] and {a[1], b[1]} == {"Add", "Sub"} and a[1] == "Add"
                                           for a, b in zip(u1, u2))
    chk.ob("R05.2", "transform.StackedTransforms:push-pop-inverse", inv, po.where,
           f"pop applies the inverse update of push to the same keys: push {u1} / pop {u2}")
    chk.ob("R05.2", "transform.StackedTransforms.push:counts-per-capture", any(".captures[" in a[0] and a[3] is not None for a in u1), pu.where,
           "push counts every capture of the activated set (loop over the captures argument)")
    # counters followed by _apply
    for m in ("push", "pop"):
        fi = repo.func(f"transform.SyncedStackedTransforms.{m}")
        g = CFG(fi.node, lambda s: False)
        sup = g.find(lambda n: n.kind == "stmt" and f"super().{m}(" in n.text())
        app = g.find(lambda n: n.kind == "stmt" and "self._apply(" in n.text())
        ok = bool(sup) and bool(app) and all(not g.path_exists(s, g.exit, avoid=app, labels=("n", "t", "f")) for s in sup)
        chk.ob("R05.2", f"transform.SyncedStackedTransforms.{m}:apply-after-count", ok, fi.where,
               f"every change of the counters in {m} is followed on all normal paths by _apply (the installed code matches the counters)")
        args_ok = all(norm(c.args[0]) == "self.target" for c in ast.walk(fi.node) if isinstance(c, ast.Call) and norm(c.func) == "self._apply" and c.args)
        chk.ob("R05.2", f"transform.SyncedStackedTransforms.{m}:apply-target", args_ok and bool(app), fi.where, "_apply is applied to the stack's own target function")
    # _apply installs what get() selected
    ap = repo.func("transform.SyncedStackedTransforms._apply")
    fap = facts_of(ap)
    fnp = ap.node.args.args[1].arg
    unpack = [n for n in walk_local(ap.node) if isinstance(n, ast.Assign) and norm(n.value) == "self.get()" and isinstance(n.targets[0], ast.Tuple) and len(n.targets[0].elts) == 4]
    parts = [norm(e) for e in unpack[0].targets[0].elts] if len(unpack) == 1 else [None] * 4
    chk.ob("R05.2", "transform.SyncedStackedTransforms._apply:installs-selected-variant",
           len(unpack) == 1 and fap.has(f"{fnp}.__code__ = {parts[1]}", exactly=[]) and fap.has(f"{fnp}.__ptera_info__ = {parts[2]}", exactly=[]), ap.where,
           "_apply installs the code and info of the variant selected by get()")
    # _untooler pops the same captures from the function's own stack
    un = repo.func("overlay._untooler")
    pops = [c for c in ast.walk(un.node) if isinstance(c, ast.Call) and isinstance(c.func, ast.Attribute) and c.func.attr == "pop"]
    params = [a.arg for a in un.node.args.args]
    chk.ob("R05.2", "overlay._untooler:pops-same-captures", len(pops) == 1 and len(params) == 2 and norm(pops[0].args[0]) == params[1]
           and _object_read(pops[0].func.value, un.node) in (f"{params[0]}.__ptera_stack__", f"getattr({params[0]}, '__ptera_stack__', None)"), un.where, "_untooler pops exactly the capture set it is given from the function's stack")
    tl = repo.func("overlay._tooler")
    pushes = [c for c in ast.walk(tl.node) if isinstance(c, ast.Call) and isinstance(c.func, ast.Attribute) and c.func.attr == "push"]
    chk.ob("R05.2", "overlay._tooler:pushes-given-captures", len(pushes) == 1 and norm(pushes[0].args[0]) == [a.arg for a in tl.node.args.args][1], tl.where,
           "_tooler pushes exactly the capture set it is given")
    # autotool: both branches walk the same selector with the two inverse wrappers
    at = repo.func("overlay.autotool")
    from ..pairing import _wrapper_role
    wcalls = [c for c in ast.walk(at.node) if isinstance(c, ast.Call) and isinstance(c.func, ast.Attribute) and c.func.attr == "wrap_functions" and c.args]
    wraps = sorted(str(_wrapper_role(c.args[0], c)) for c in wcalls)
    recvs = {norm(c.func.value) for c in wcalls}
    chk.ob("R05.2", "overlay.autotool:same-traversal", wraps == ["_tooler", "_untooler"] and len(recvs) == 1, at.where,
           f"autotool and its undo walk the same selector with inverse wrappers ({wraps} on {sorted(recvs)})")
    undo = at.node.args.args[1].arg if len(at.node.args.args) > 1 else "undo"
    by_role = {str(_wrapper_role(c.args[0], c)): sorted(set(conds(c, at.node))) for c in wcalls}
    ok = by_role.get("_untooler") == [undo] and by_role.get("_tooler") == [f"not {undo}"]
    chk.ob("R05.2", "overlay.autotool:undo-selects-untooler", ok, at.where, "undo=True selects the popping wrapper, otherwise the pushing one")
    wf = repo.func("selector.Call.wrap_functions")
    fwf = facts_of(wf)
    wp = wf.node.args.args[1].arg
    chk.ob("R05.2", "selector.Call.wrap_functions:every-level", fwf.has(f"{wp}(self.element.name, self.captures)", exactly=[]) and fwf.mentions(f"child.wrap_functions({wp}) for child in self.children"),
           wf.where, "wrap_functions applies the wrapper to the function of every selector level with that level's captures")
    for m, kind in (("_install_tooling", "acq"), ("_uninstall_tooling", "rel")):
        fi = repo.func(f"probe.Probe.{m}")
        loops = [n for n in walk_local(fi.node) if isinstance(n, ast.For) and norm(n.iter) == "self._selectors"]
        ok = len(loops) == 1 and any(k == kind for st in loops[0].body for _, k, _ in classify_stmt(st, ctxvars))
        chk.ob("R05.2", f"probe.Probe.{m}:every-selector", ok, fi.where, f"{m} covers every selector of the probe")

    # ---- R05.3
    cg_callers = cg
    for fi, call, st, tok in token_sites(repo, ctxvars):
        chk.count("ContextVar.set sites")
        fin_reset = False
        for t in walk_local(fi.node):
            if isinstance(t, ast.Try):
                after = False
                for s in t.finalbody:
                    if tok and f".reset({tok})" in norm(s):
                        fin_reset = True
        if fin_reset:
            chk.ob("R05.3", f"{fi.qual}:token:{tok}:reset-in-finally", True, fi.where, f"token `{tok}` is reset in a finally of the same function (LIFO by construction)")
            continue
        if tok and tok.startswith("self.") and fi.cls:
            partner = repo.resolve_method(fi.cls, "__exit__") if fi.node.name == "__enter__" else None
            has_reset = partner is not None and f".reset({tok})" in norm(partner.node)
            chk.ob("R05.3", f"{fi.qual}:token:{tok}:reset-by-pair", has_reset, fi.where, f"token `{tok}` is reset by the paired __exit__")
            # clients that call __enter__/__exit__ explicitly instead of through `with`
            explicit = []
            for q2, f2 in repo.functions.items():
                for c in walk_local(f2.node):
                    if isinstance(c, ast.Call) and isinstance(c.func, ast.Attribute) and c.func.attr in ("__enter__", "__exit__"):
                        rt = receiver_class(cg, f2, c.func.value)
                        if rt and fi.cls in repo.mro(rt):
                            explicit.append((f2, c))
            public = set()
            for f2, c in explicit:
                for api in public_entry_points(repo, cg, f2):
                    public.add(api)
            for api in sorted(public):
                chk.ob("R05.3", f"{fi.cls}:token:{tok}:non-with-entry-point:{api}", False, repo.func(api).where,
                       f"`{api}` is a public way to run {fi.cls}.__enter__/__exit__ outside a `with` statement, in any order: "
                       f"the token `{tok}` then restores a stale collection (non-LIFO deactivation)")
            if not public:
                chk.ob("R05.3", f"{fi.cls}:token:{tok}:only-with-clients", True, fi.where, "all clients go through `with`")
        else:
            chk.ob("R05.3", f"{fi.qual}:token:{tok}:discipline", False, fi.where, f"token of `{norm(call)}` is neither reset in a finally nor stored for a paired method")

    # ---- R05.4
    from .shared import variant_selection_obligations
    variant_selection_obligations(repo, chk, "R05.4")
    si = repo.func("transform.StackedTransforms.__init__")
    chk.ob("R05.4", "transform.StackedTransforms.__init__:starts-at-zero", facts_of(si).has("self.instrument_count = 0", exactly=[]) and facts_of(si).has("self.captures = Counter()", exactly=[]),
           si.where, "a fresh stack starts with count 0 and no captures")

    # ---- R05.5
    en = repo.func("overlay.BaseOverlay.__enter__")
    fen = facts_of(en)
    sets = [c for c in ast.walk(en.node) if isinstance(c, ast.Call) and isinstance(c.func, ast.Attribute) and c.func.attr == "set"]
    cvar = norm(sets[0].args[0]) if len(sets) == 1 and sets[0].args else "<installed collection>"
    currs = fen.bound_to("HandlerCollection.current.get()")
    cur = currs[0] if len(currs) == 1 else "<current collection>"
    pairs = "[(h.selector, h) for h in self.handlers]"
    coll_defs = sorted((t, tuple(x for x in c if "self.handlers" not in x and "curr" in x or cur in x)) for t, c, n in fen.items if isinstance(n, (ast.Assign,)) and t.startswith(f"{cvar} = "))
    fresh = [c for t, c, n in fen.items if t == f"{cvar} = HandlerCollection({pairs})"]
    ext = [c for t, c, n in fen.items if t == f"{cvar} = {cur}.plus({pairs})"]
    ok = len(sets) == 1 and len(fresh) == 1 and len(ext) == 1 and f"{cur} is None" in fresh[0] and f"{cur} is not None" in ext[0] \
        and len([1 for t, c, n in fen.items if t.startswith(f"{cvar} = ") and not (isinstance(n, ast.Assign) and isinstance(n.value, ast.IfExp))]) == 2
    chk.ob("R05.5", "overlay.BaseOverlay.__enter__:extends-current", ok, en.where,
           f"the installed collection is curr.plus(handlers) when a collection is current and a fresh one otherwise (found {coll_defs})")
    chk.ob("R05.5", "overlay.BaseOverlay.__enter__:handlers-paired-with-own-selector", len(fresh) == 1 and len(ext) == 1 and len(currs) == 1, en.where, "every handler of the overlay is installed, paired with its own selector, relative to the current collection")
    # the blocks opened from one overlay (tapping / tweaking / rewriting fork it and add their rule) do not share a handler list
    oi = repo.func("overlay.BaseOverlay.__init__")
    st = [n for n in walk_local(oi.node) if isinstance(n, ast.Assign) and len(n.targets) == 1 and norm(n.targets[0]) == "self.handlers"]
    va = oi.node.args.vararg.arg if oi.node.args.vararg else None
    ok = len(st) == 1 and va is not None and norm(st[0].value) in (f"list({va})", f"[*{va}]") 
    chk.ob("R05.5", "overlay.BaseOverlay.__init__:own-handler-list", ok, oi.where,
           f"every overlay keeps its handlers in a list of its own, created from the constructor arguments (`{norm(st[0]) if st else 'no store found'}`)")
    fk = repo.func("overlay.BaseOverlay.fork")
    ctor_names = {"type(self)", "self.__class__"} | {c.rsplit(".", 1)[-1] for c in repo.classes if "overlay.BaseOverlay" in repo.mro(c)}
    rets = returns_of(fk.node)

    def fresh_overlay(v):
        v_ = ast.parse(expand(v, fk.node), mode="eval").body if v is not None else None
        return isinstance(v_, ast.Call) and norm(v_.func) in ctor_names and not v_.keywords and len(v_.args) == 1 and isinstance(v_.args[0], ast.Starred) \
            and norm(v_.args[0].value) == "self.handlers"
    chk.ob("R05.5", "overlay.BaseOverlay.fork:a-new-overlay-with-its-own-list", bool(rets) and all(fresh_overlay(r_.value) for r_ in rets), fk.where,
           "fork() goes through the constructor with the handlers unpacked (the constructor copies them into a new list): a rule added to the fork "
           f"-- what tapping / tweaking / rewriting do -- never lands in the overlay it was forked from (returns: {[norm(r_.value) for r_ in rets]})")
    forks, bad_adds = [], []
    for q in ("overlay.Overlay.tweaking", "overlay.Overlay.rewriting", "overlay.Overlay.tapping"):
        f2 = repo.func(q)
        for n in walk_local(f2.node):
            if isinstance(n, ast.Call) and isinstance(n.func, ast.Attribute) and n.func.attr in ("tweak", "rewrite", "tap", "add", "register", "use", "on"):
                forks.append((q, n))
                rv = n.func.value
                stores = [a for a in walk_local(f2.node) if isinstance(a, ast.Assign) and any(is_name(t, rv.id) for t in a.targets)] if isinstance(rv, ast.Name) else []
                src = norm(stores[0].value) if len(stores) == 1 else norm(rv)
                if src != "self.fork()":
                    bad_adds.append(f"{q}: {norm(n)[:50]}")
    chk.ob("R05.5", "overlay.Overlay:rules-of-a-block-are-added-to-a-fork", len(forks) >= 3 and not bad_adds, "ptera/overlay.py",
           f"the context-manager conveniences (tweaking / rewriting / tapping) add their rule to `self.fork()`, not to the overlay itself ({len(forks)} sites){': ' + str(bad_adds) if bad_adds else ''}")
    pl = repo.func("overlay.HandlerCollection.plus")
    r = returns_of(pl.node)
    ok = len(r) == 1 and isinstance(r[0].value, ast.Call) and "self.handler_pairs" in norm(r[0].value) and "handler_pairs" in {n.id for n in ast.walk(r[0].value) if isinstance(n, ast.Name)}
    chk.ob("R05.5", "overlay.HandlerCollection.plus:keeps-existing", ok, pl.where, "plus returns a collection holding the existing pairs and the new ones")

    # ---- R05.6
    ctor = [n for n in ast.walk(tl.node) if isinstance(n, ast.Call) and norm(n.func) == "SyncedStackedTransforms"]
    ok = False
    if len(ctor) == 1:
        test = None
        cur = ctor[0]
        while cur is not tl.node:
            par = cur._parent
            if isinstance(par, ast.If):
                test = (norm(par.test), "body" if cur in par.body else "orelse")
            cur = par
        ok = test in (("hasattr(fn, '__ptera_stack__')", "orelse"), ("not hasattr(fn, '__ptera_stack__')", "body"))
    chk.ob("R05.6", "overlay._tooler:one-stack-per-function", ok, tl.where,
           "a new instrumentation stack is created only for a function that has none (an existing stack, with its counts, is reused)")


def loop_iter(node):
    cur = getattr(node, "_parent", None)
    while cur is not None and not isinstance(cur, (ast.FunctionDef, ast.Lambda)):
        if isinstance(cur, ast.For):
            return norm(cur.iter)
        cur = getattr(cur, "_parent", None)
    return None


def _object_read(recv, fn):
    """Where the object a method is called on was read from: the receiver expression itself, or the value of the single plain assignment to the local that holds it."""
    if isinstance(recv, ast.Name):
        defs = [n for n in ast.walk(fn) if isinstance(n, ast.Assign) and any(is_name(t, recv.id) for t in n.targets)]
        if len(defs) == 1:
            return norm(defs[0].value)
    return norm(recv)


def guard_of(fn, method, ctxvars):
    """Conditions (astq.conds: nested ifs and guard clauses alike) under which fn calls <ContextVar>.<method>; None if it never does."""
    for n in walk_local(fn):
        if isinstance(n, ast.Call) and isinstance(n.func, ast.Attribute) and n.func.attr == method and any(norm(n.func.value).endswith(cv) for cv in ctxvars):
            return sorted(set(conds(n, fn)))
    return None


def released_under_guard(fi, res, ctxvars, assume):
    """Release required on every normal path on which the conditions of the acquire (`assume`) hold."""
    return released_on_all_normal_paths(fi, res, ctxvars, assume=assume or ())


def receiver_class(cg, fi, recv):
    if isinstance(recv, ast.Name) and recv.id == "self":
        return fi.cls
    if isinstance(recv, ast.Attribute) and isinstance(recv.value, ast.Name) and recv.value.id == "self" and fi.cls:
        for c in cg.repo.mro(fi.cls):
            t = cg.field_types.get((c, recv.attr))
            if t:
                return t
    if isinstance(recv, ast.Name):
        return cg.local_types(fi).get(recv.id)
    return None


def public_entry_points(repo, cg, fi, seen=None):
    """Public (non-underscore) package functions from which `fi` is reachable, stopping at the first public one."""
    seen = seen if seen is not None else set()
    if fi.qual in seen:
        return set()
    seen.add(fi.qual)
    name = fi.node.name
    if not name.startswith("_"):
        return {fi.qual}
    out = set()
    # dunder/underscore methods: follow package callers; `_enter`/`_exit` are reached from SourceProxy.__enter__/__exit__
    for q, call, how in cg.callers_of(fi.qual):
        out |= public_entry_points(repo, cg, repo.functions[q], seen)
    if name in ("_enter", "_exit") and fi.cls:
        dunder = "__enter__" if name == "_enter" else "__exit__"
        for q2, f2 in repo.functions.items():
            for c in walk_local(f2.node):
                if isinstance(c, ast.Call) and isinstance(c.func, ast.Attribute) and c.func.attr == dunder and is_name(c.func.value, "self") \
                        and f2.cls and fi.cls in repo.mro(f2.cls):
                    out |= public_entry_points(repo, cg, f2, seen)
    return out
