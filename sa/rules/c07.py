"""C07 - total probes: the structural clauses only (exit hook on every way out, close registered at the outermost
match, accumulate-not-overwrite, completeness test).  Attribution of values to call trees is NOT decided."""
import ast

from ..astq import Facts, compare_normal, conds, ends_in_jump, expand, facts_of, lits, is_name, is_self_attr, kwarg, returns_of, returns_with_conds
from ..cfg import CFG
from ..core import order, AnalysisError, norm, walk_local
from ..xform import query as Q
from ..xform.terms import In, Node, Raise, Visit, walk


def guards(node, fn):
    return conds(node, fn)


def run(repo, chk):
    chk.explanation = (
        "C07 as a whole relates dynamic call trees to records and is not decidable statically; what is decided here are its structural "
        "necessary conditions, each of which breaks the behaviour when it fails: (R07.1) the close hook runs on every way out of an "
        "activation -- the body sits inside `with proceed(...)` (template fact), proceed.__exit__ calls interactor.exit() unconditionally, which "
        "closes every accumulator registered for closing; (R07.2) an accumulator is registered for closing exactly at the outermost match -- "
        "the template flag is read before the fork, passed as close_at_exit, honoured by register, and forks are never templates; (R07.3) Total "
        "accumulates every value (append), never overwrites; (R07.4) the record is emitted only from the root, once per leaf, and only when "
        "the set of captured names equals the set the selector requires (no record for an incomplete call); (R07.5) a focused element forks "
        "the Total accumulator so that each binding of the focus gets its own record sharing the outer values. Which values end up in which "
        "record for a given call tree is not decided.")
    chk.not_decided += ["attribution of values to the right outermost call for arbitrary call trees (runtime data flow through accumulator forks)",
                        "the number and order of records for a given program"]
    chk.assumptions += ["engine T trusted base (see C01) for the with-proceed fact"]
    chk.rule("R07.1", "the close hook runs on every way out: body inside with proceed(...); proceed.__exit__ calls interactor.exit() on every path; exit() closes every registered accumulator", 4)
    chk.rule("R07.2", "close is registered exactly at the outermost match: template flag read before forking, passed as close_at_exit, honoured by register; forks are not templates", 4)
    chk.rule("R07.3", "Total accumulates (Capture.accum appends) and never overwrites", 2)
    chk.rule("R07.4", "a record is emitted only from the root, per leaf, iff the captured names equal the required names", 5)
    chk.rule("R07.5", "a focused element forks the Total accumulator (one record per binding of the focus); focus-free or forced-total selectors use Total with the emitter as close", 2)

    # ---------------- R07.1
    cls, H, stats = Q.templates(repo, chk.tier)
    roots = [p for p in H.get("visit_FunctionDef", []) if not isinstance(p.template, Raise)]
    ok = bool(roots)
    for p in roots:
        T = p.template
        body = T.fields.get("body") or [] if isinstance(T, Node) else []
        outside = [s for s in body if not (isinstance(s, Node) and s.cls == "With") and not (isinstance(s, In) and s.path == "node.body[0]")]
        ok = ok and not outside and any(isinstance(s, Node) and s.cls == "With" for s in body)
    chk.ob("R07.1", "visit_FunctionDef:everything-inside-with-proceed", ok, "ptera/transform.py (visit_FunctionDef)",
           "every statement of an instrumented function runs inside `with proceed(self)`: __exit__ runs on return, fall-through, exception and generator close")
    ex = repo.func("overlay.proceed.__exit__")
    g = CFG(ex.node, lambda s: False)
    calls = g.find(lambda n: n.kind == "stmt" and any(isinstance(c, ast.Call) and norm(c.func) == "self.interactor.exit" for c in ast.walk(n.stmt)))
    ok = bool(calls) and not g.path_exists(g.entry, g.exit, avoid=calls, labels=("n", "t", "f"))
    chk.ob("R07.1", "overlay.proceed.__exit__:always-calls-interactor.exit", ok, ex.where,
           "proceed.__exit__ calls interactor.exit() on every path (not only when the activation ended normally)")
    ie = repo.func("interpret.Interactor.exit")
    loops = [n for n in walk_local(ie.node) if isinstance(n, ast.For) and norm(n.iter) == "self.to_close"]
    ok = len(loops) == 1 and any(isinstance(c, ast.Call) and isinstance(c.func, ast.Attribute) and c.func.attr == "close" and is_name(c.func.value, loops[0].target.id)
                                 for c in ast.walk(loops[0])) and not guards(loops[0], ie.node)
    chk.ob("R07.1", "interpret.Interactor.exit:closes-every-registered-accumulator", ok, ie.where, "exit() closes every accumulator in to_close, unconditionally")
    en = repo.func("overlay.proceed.__enter__")
    chk.ob("R07.1", "overlay.proceed.__enter__:interactor-of-this-activation", any(isinstance(n, ast.Assign) and any(norm(e) == "self.interactor" for t in n.targets for e in (t.elts if isinstance(t, ast.Tuple) else [t]))
           and expand(n.value, en.node) == "self.curr.proceed(self.fn)" for n in walk_local(en.node)), en.where, "the interactor closed at exit is the one created for this activation")

    # ---------------- R07.2
    pr = repo.func("overlay.HandlerCollection.proceed")
    from .proceed_shape import proceed_shape
    P = proceed_shape(repo)
    forks, regs = P.forks, P.regs
    ok = len(forks) == 1 and any(f"{P.acc}.template" in c.split(" or ") for c in P.xconds(forks[0]))
    chk.ob("R07.2", "overlay.HandlerCollection.proceed:template-flag-read-before-fork", ok, pr.where,
           "whether this is the outermost match (acc.template) is read before the accumulator is replaced by its fork (a fork is never a template)")
    flag = kwarg(regs[0], "close_at_exit") if len(regs) == 1 else None
    flag_reads = [a_ for a_ in ast.walk(P.loop) if isinstance(a_, ast.Assign) and len(a_.targets) == 1 and isinstance(flag, ast.Name) and is_name(a_.targets[0], flag.id)]
    ok = flag is not None and len(flag_reads) == 1 and norm(flag_reads[0].value) == f"{P.acc}.template" and len(forks) == 1 and order(flag_reads[0]) < order(forks[0]) < order(regs[0])
    chk.ob("R07.2", "overlay.HandlerCollection.proceed:close_at_exit=is_template", ok, pr.where,
           f"the accumulator is registered for closing exactly when this activation is the outermost match (close_at_exit={norm(flag) if flag is not None else 'missing'}, read from the accumulator before it is forked)")
    rg = repo.func("interpret.Interactor.register")
    apps = [c for c in ast.walk(rg.node) if isinstance(c, ast.Call) and norm(c.func) == "self.to_close.append"]
    ok = len(apps) == 1 and is_name(apps[0].args[0], rg.node.args.args[1].arg) and sorted(guards(apps[0], rg.node)) == sorted([rg.node.args.args[3].arg, f"{rg.node.args.args[1].arg}.close"])
    chk.ob("R07.2", "interpret.Interactor.register:honours-close_at_exit", ok, rg.where, "register queues the accumulator for closing iff close_at_exit (and it has a close function)")
    fk = repo.func("interpret.BaseAccumulator.fork")
    c = [x for x in ast.walk(fk.node) if isinstance(x, ast.Call) and kwarg(x, "template") is not None]
    ok = len(c) == 1 and isinstance(kwarg(c[0], "template"), ast.Constant) and kwarg(c[0], "template").value is False
    chk.ob("R07.2", "interpret.BaseAccumulator.fork:forks-are-not-templates", ok, fk.where, "a fork is created with template=False: nested matches of the same selector do not close on their own")
    ok = len(c) == 1 and kwarg(c[0], "parent") is not None and expand(kwarg(c[0], "parent"), fk.node) == "None if self.template else self"
    chk.ob("R07.2", "interpret.BaseAccumulator.fork:parent-chain", ok, fk.where, "a fork of a template is a root; any other fork shares its parent's captures")

    # ---------------- R07.3
    tl = repo.func("interpret.Total.log")
    calls = [c for c in ast.walk(tl.node) if isinstance(c, ast.Call) and isinstance(c.func, ast.Attribute) and c.func.attr in ("accum", "set")]
    chk.ob("R07.3", "interpret.Total.log:accumulates", [c.func.attr for c in calls] == ["accum"] and facts_of(tl).has("self.getcap(element).accum(varname, value)", exactly=[]), tl.where,
           "Total.log appends the value to the capture of the element (never Capture.set)")
    ca = repo.func("interpret.Capture.accum")
    aps = sorted(norm(c.func) for c in ast.walk(ca.node) if isinstance(c, ast.Call) and isinstance(c.func, ast.Attribute) and c.func.attr == "append")
    chk.ob("R07.3", "interpret.Capture.accum:appends-name-and-value", aps == ["self.names.append", "self.values.append"], ca.where, "accum appends to names and values (order of binding is kept)")

    ia = repo.func("interpret.Interactor.interact")
    g2 = CFG(ia.node, lambda s_: isinstance(s_, (ast.Raise, ast.Assert)))
    vname_ = ia.node.args.args[4].arg if len(ia.node.args.args) >= 6 else "value"
    tests = [n for n in g2.nodes if n.kind == "test" and norm(n.stmt.test) == f"{vname_} is ABSENT"]
    logs = g2.find(lambda n: n.kind == "stmt" and ".log(" in n.text())
    from .shared import marker_free_definitions
    ok = bool(tests) and bool(logs) and all(not g2.path_exists(g2.entry, l, avoid=tests + marker_free_definitions(ia, g2, vname_)) for l in logs) and \
        all(isinstance(m.stmt, ast.Raise) for t in tests for m, lab in t.succ if lab == "t")
    chk.ob("R07.3", "interpret.Interactor.interact:only-bound-values-are-accumulated", ok, ia.where,
           "a value is logged into the accumulators only after the `is ABSENT` guard: a declared-but-unset variable is never recorded as a value, "
           "so the completeness test of Total.close cannot be satisfied by a variable that was never bound")

    # a matched level stays pending for deeper calls: values bound in nested matching calls reach the record of the outermost call
    ok = len(P.keeps) == 1 and conds(P.keeps[0], P.loop) == [f"not {P.sel}.immediate"]
    chk.ob("R07.3", "overlay.HandlerCollection.proceed:matched-levels-stay-pending", ok, pr.where,
           "a non-immediate selector level is carried into every callee whether or not it matched here (same accumulator): re-entered nested calls keep contributing their values to the outermost call's record"
           + (f" (conditions of the carry: {conds(P.keeps[0], P.loop)})" if P.keeps else " (no carry found)"))
    ok = P.memo.ok and P.memo.key == f"({P.fn}, {P.sel})"
    chk.ob("R07.3", "overlay.HandlerCollection.proceed:fit-decided-per-function-object", ok, pr.where,
           "whether a call belongs to a selector level is remembered per function OBJECT and selector: two functions that share a name (closures of one factory) are never taken for one another, so a record only holds values of calls that match")
    # ---------------- R07.4
    tc = repo.func("interpret.Total.close")
    ftc = facts_of(tc)
    closes = [(t, c, n) for t, c, n in ftc.items if isinstance(n, ast.Call) and isinstance(n.func, ast.Attribute) and n.func.attr == "_close"]
    chk.ob("R07.4", "interpret.Total.close:only-from-root", bool(closes) and all("self.parent is None" in c for _, c, _ in closes), tc.where,
           "only the root accumulator of an outermost match emits records")
    ok, why = False, "no leaf._close(args) call"
    if len(closes) == 1:
        t, c, n = closes[0]
        recv = norm(n.func.value)
        built = f"{recv}.build()"
        complete = [x for x in c if x in (f"set({built}) == {recv}.names", f"{recv}.names == set({built})")]
        ok = bool(complete) and len(n.args) == 1 and expand(n.args[0], tc.node) == built
        why = f"`{t}` runs when {[x for x in c if 'names' in x]}"
    chk.ob("R07.4", "interpret.Total.close:record-iff-all-names-captured", ok, tc.where,
           f"a leaf's record is emitted iff the set of captured names equals the required names ({why}): incomplete calls produce no record, and nothing is emitted with missing variables")
    ok = len(closes) == 1 and ftc.loops(closes[0][2]) == [f"for {norm(closes[0][2].func.value)} in self.leaves() or (self,)"]
    chk.ob("R07.4", "interpret.Total.close:one-record-per-leaf", ok, tc.where, "one record per leaf (per binding of the focus), each built from the leaf's own captures plus its parents'")
    ti = repo.func("interpret.Total.__init__")
    fti = facts_of(ti)
    ok = fti.has("self.names = self.selector.all_captures", exactly=["self.parent is None"]) and fti.has("self.names = self.parent.names", exactly=["self.parent is not None"]) \
        and fti.has("self.parent.children.append(self)", exactly=["self.parent is not None"])
    chk.ob("R07.4", "interpret.Total.__init__:required-names-and-children", ok, ti.where,
           "the required names are the selector's captures (inherited by forks), and every fork is recorded as a child of its parent")
    lv = repo.func("interpret.Total.leaves")
    flv = Facts(lv.node)
    from ..astq import returned_list_sources
    srcs_ = returned_list_sources(lv.node)
    ok = srcs_ == {("isinstance(self.selector, Element)", (), "the item", "self"),
                   ("not isinstance(self.selector, Element)", ("for child in self.children",), "each of", "child.leaves()")}
    chk.ob("R07.4", "interpret.Total.leaves:leaf-is-an-element-fork", ok, lv.where,
           "leaves are the forks made for a focused element; inner nodes contribute the leaves of their children")
    bd = repo.func("interpret.BaseAccumulator.build")
    fbd = facts_of(bd)
    ups = [n for t, c, n in fbd.items if isinstance(n, ast.Call) and isinstance(n.func, ast.Attribute) and n.func.attr == "update" and len(n.args) == 1 and norm(n.args[0]).endswith(".captures")]
    ok = False
    if len(ups) == 1:
        cur_ = norm(ups[0].args[0])[: -len(".captures")]
        acc_ = norm(ups[0].func.value)
        ok = fbd.loops(ups[0]) == [f"while {cur_}"] and any(fbd.loops(n) == [f"while {cur_}"] for n in fbd.find(f"{cur_} = {cur_}.parent")) \
            and fbd.has(f"{cur_} = self") and fbd.has(f"return {acc_}") and fbd.has(f"{acc_} = {{}}")
    chk.ob("R07.4", "interpret.BaseAccumulator.build:walks-parent-chain", ok, bd.where, "a record merges the captures of the leaf and of all its parents")

    # ---------------- R07.5
    af = repo.func("interpret.Total.accumulator_for")
    faf = facts_of(af)
    ep = af.node.args.args[1].arg
    ok = faf.has(f"return self.fork(selector={ep})", exactly=[f"{ep}.focus"]) and faf.has("return self", exactly=[f"not {ep}.focus"]) and ends_in_jump(af.node.body)
    chk.ob("R07.5", "interpret.Total.accumulator_for:fork-on-focus", ok, af.where, "a focused element gets its own fork (one record per binding of the focus, sharing the outer values)")
    mr = repo.func("probe.Probe._make_rule")
    fmr = facts_of(mr)
    rws = [(set(cs), expand(v, mr.node)) for cs, v, r in returns_with_conds(mr.node) if v is not None]
    sp = mr.node.args.args[1].arg
    tot = [cs for cs, t in rws if t == f"Total({sp}, close=self._make_emitter({sp}))"]
    imm = [cs for cs, t in rws if t.startswith("Immediate(")]
    ok = len(tot) == 1 and tot[0] == set(lits(f"probe_type != 'total' and ({sp}.focus or probe_type == 'immediate')", False)) \
        and bool(imm) and all({"probe_type != 'total'", f"probe_type == 'immediate' or {sp}.focus"} <= c for c in imm) and len(tot) + len(imm) == len(rws)
    chk.ob("R07.5", "probe.Probe._make_rule:total-for-focus-free-or-forced", ok, mr.where, "a selector without focus, or probe_type='total', uses a Total accumulator whose close function is the emitter")
    from .shared import activation_integrity_obligations
    activation_integrity_obligations(repo, chk, "R07.1", "aggregating probes")
    from .shared import unfresh_local_mutations
    n_sites, leaks = unfresh_local_mutations(repo, ("interpret.", "overlay."))
    if n_sites < 5:
        raise AnalysisError(f"only {n_sites} in-place changes of locals found in interpret.py / overlay.py (confirmed by hand: 7)")
    chk.ob("R07.4", "interpret+overlay:containers-changed-in-place-are-created-on-the-spot", not leaks, "ptera/interpret.py, ptera/overlay.py",
           f"every local container that is changed in place in the accumulator / matching code ({n_sites} sites: the record built by build(), the next collection of proceed(), "
           f"the capture map of fits_selector, the rollback journal) is created where it is filled, never a table obtained from another accumulator or activation "
           f"(build() hands out the live table of a root accumulator)" + (f": {leaks}" if leaks else ""))
    from .shared import routing_obligations
    routing_obligations(repo, chk, "R07.3", "record")
    from .shared import count_integrity_obligations
    count_integrity_obligations(repo, chk, "R07.1", "a variable three probes capture stays instrumented until the third of them leaves (the outermost total probe keeps getting complete records)")
    from .shared import call_exit_order_obligations
    call_exit_order_obligations(repo, chk, "R07.3", "a listener that calls a probed function when a record is delivered does not write into the record (or the pending levels) of the call that is ending")
    from .shared import build_precedence_obligations
    build_precedence_obligations(repo, chk, "R07.4", "a record shows each captured name once, with the values of the level that declared it first")
    from .shared import call_aggregate_obligations
    call_aggregate_obligations(repo, chk, "R07.5", ["focus", "all_captures"], "whether a selector has a focus (fork per binding) and which names a complete record needs are decided over the whole call path")
    from .shared import fork_obligations
    fork_obligations(repo, chk, "R07.2", "each outermost call (and each binding of the focus) accumulates into its own record")
    # ... and inside Probe.__init__ it reaches _make_rule as given, once per selector: None means "decide per selector" (by that selector's own focus)
    pi = repo.func("probe.Probe.__init__")
    mk = [n for n in ast.walk(pi.node) if isinstance(n, ast.Call) and norm(n.func) in ("self._make_rule",)]
    rebound = [n for n in ast.walk(pi.node) if isinstance(n, ast.Name) and n.id == "probe_type" and isinstance(n.ctx, (ast.Store, ast.Del))]
    ok = bool(mk) and all(len(c.args) == 2 and not c.keywords and is_name(c.args[1], "probe_type") for c in mk) and not rebound
    chk.ob("R07.5", "probe.Probe.__init__:probe_type-reaches-every-rule-as-given", ok, pi.where,
           "every selector's rule is made from the probe_type argument exactly as the caller gave it (None lets each selector decide by its own focus: a focus-free "
           "selector next to a focused one still gets a Total accumulator)" + (f" -- probe_type is rebound at line {rebound[0].lineno}" if rebound else ""))
    per_sel = all(isinstance(c.args[0], ast.Name) and any(isinstance(a, (ast.comprehension, ast.For)) and is_name(a.target, c.args[0].id) for a in ast.walk(pi.node)) for c in mk if c.args)
    chk.ob("R07.5", "probe.Probe.__init__:one-rule-per-selector", bool(mk) and per_sel, pi.where, "_make_rule is applied to each selector of the probe in turn")
    # probe_type must reach Probe through every entry point: it decides Total vs Immediate
    for q_ in ("probe.probing", "probe.global_probe"):
        f_ = repo.func(q_)
        fw = [k for n in walk_local(f_.node) if isinstance(n, ast.Call) for k in n.keywords if k.arg == "probe_type"]
        chk.ob("R07.5", f"{q_}:probe_type-handed-through", len(fw) == 1 and norm(fw[0].value) == "probe_type", f_.where,
               f"{q_} hands its probe_type argument to the probe it builds (forcing 'total' on a focused selector must work through every entry point)")
