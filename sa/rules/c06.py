"""C06 - meta-events bracket every path: function / loop / return / yield brackets in the output templates; meta-name tables."""
import ast

from ..astq import facts_of
from ..core import AnalysisError, norm, walk_local
from ..xform import query as Q
from ..xform.terms import (Copy, GenericVisit, Ident, In, InList, Lib, Node, Raise, Star, SymStr, Visit, children, walk)
from .shared import unvisited_slot_obligations


def meta_of(ix):
    n = ix.symname
    if isinstance(n, str):
        return n
    if isinstance(n, SymStr) and n.parts and isinstance(n.parts[0], str):
        return n.parts[0] + "*"
    return None


def has_user_slot(t):
    return any(isinstance(x, (In, InList, Visit, GenericVisit)) for x in walk(t))


def first_stmt(stmts):
    for s, dec, star in Q.stmts_of(stmts):
        return s
    return None


def is_meta_expr(stmt, name):
    return isinstance(stmt, Node) and stmt.cls == "Expr" and Q.is_interact(stmt.fields.get("value")) and meta_of(Q.Interact(stmt.fields["value"])) == name


def lib_role(n):
    return n.fields["id"].role if Q.is_lib_name(n) else None


def run(repo, chk):
    chk.explanation = (
        "Decides the bracket structure of the emitted code on the output templates of engine T, i.e. for every control-flow path of every "
        "program at once: the whole function body (prologue included) sits inside `with proceed(self) as frame:` and, inside it, in a "
        "try whose first statement is the #enter interaction, whose only handler catches BaseException, reports #error with the exception "
        "and re-raises, and whose finally is the #exit interaction (R06.1); each for-loop body sits in a try/finally bracketed by "
        "#loop_v / #endloop_v for every name of the target, with `orelse` outside (R06.2); every return is return interact(#value, value) and "
        "every yield is interact(#receive, yield interact(#yield, value)) (R06.3); normal completion without return and returns "
        "superseded by a finally are judged on the same templates (R06.4); no expression slot that may hold a yield is left unvisited "
        "(R06.5); meta-name tables agree between the emitting sites, _standard_info, _valid_hashvars, Call.problems and fits_selector (R06.6). "
        "Iteration counts, event values and generator finalisation by the garbage collector are not decided (CPython guarantees finally on close).")
    chk.not_decided += ["number of iterations / events at run time", "generator finalisation by the garbage collector (trusted: CPython runs finally on close)"]
    chk.assumptions += ["Python semantics of try/finally/with: finally and __exit__ run on every way out (return, break, continue, raise, generator close)"]
    chk.rule("R06.1", "function bracket: With(proceed(self) as frame) wraps prologue and body; Try(body=[#enter first, ...], handler BaseException -> #error(exc) + raise, finally=[#exit])", 6)
    chk.rule("R06.2", "loop bracket: For.body = [Try(body=[#loop_v..., target interactions, body], finalbody=[#endloop_v...])] for every name v of the target; orelse outside the bracket", 1)
    chk.rule("R06.3", "return/yield: Return(INTERACT(#value, value-or-None)); INTERACT(#receive, enter_tag, Yield(INTERACT(#yield, exit_tag, value-or-None)))", 3)
    chk.rule("R06.4", "every normal completion reports #value exactly once with the value actually returned", 2)
    chk.rule("R06.5", "no expression slot that may contain a yield is passed through unvisited", 4)
    chk.rule("R06.6", "meta-name tables agree: emitted meta names = documented hashvars; tags at emitting sites = _standard_info; verification and fitting accept exactly these", 6)

    cls, H, stats = Q.templates(repo, chk.tier)
    chk.analysed["engine_T"] = stats

    # ------------------------------------------------------------------ R06.1
    roots = [p for p in H.get("visit_FunctionDef", []) if not isinstance(p.template, Raise)]
    if not roots:
        raise AnalysisError("no root template for visit_FunctionDef")
    for p in roots:
        d = dict(p.decisions)
        en = d.get("instrument|'#enter'|Name(LIB(enter_tag):Load)")
        er = d.get("instrument|'#error'|None")
        exi = d.get("instrument|'#exit'|Name(LIB(exit_tag):Load)")
        tag = f"enter={'T' if en else 'F'},error={'T' if er else 'F'},exit={'T' if exi else 'F'},doc={'T' if d.get('const-is-str|node.body[0].value') else 'F'}"
        where = "ptera/transform.py (visit_FunctionDef/delimit)"
        T = p.template
        if not (isinstance(T, Node) and T.cls == "FunctionDef"):
            chk.ob("R06.1", f"root:FunctionDef[{tag}]", False, where, "root template is not a FunctionDef")
            continue
        body = T.fields.get("body") or []
        withs = [s for s in body if isinstance(s, Node) and s.cls == "With"]
        others = [s for s in body if not (isinstance(s, Node) and s.cls == "With")]
        ok = len(withs) == 1 and all(isinstance(s, In) and s.path == "node.body[0]" for s in others)
        chk.ob("R06.1", f"root:with-wraps-everything[{tag}]" if not ok else "root:with-wraps-everything", ok, where,
               "the function body is [docstring?, with proceed(...)]: nothing runs outside the activation" + ("" if ok else f" -- {Q.show(body, 200)}"), nontrivial=ok)
        if len(withs) != 1:
            continue
        W = withs[0]
        items = W.fields.get("items") or []
        ok = False
        if len(items) == 1 and isinstance(items[0], Node):
            ce, ov = items[0].fields.get("context_expr"), items[0].fields.get("optional_vars")
            ok = (isinstance(ce, Node) and ce.cls == "Call" and lib_role(ce.fields.get("func")) == "proceed"
                  and [lib_role(a) for a in ce.fields.get("args") or []] == ["self"] and lib_role(ov) == "frame")
        chk.ob("R06.1", "root:with-proceed-self-as-frame", ok, where, "the activation is `with proceed(<the function itself>) as <frame>`")
        wbody = W.fields.get("body") or []
        need_try = bool(er or exi)
        tries = [s for s in wbody if isinstance(s, Node) and s.cls == "Try"]
        if need_try:
            ok = len(wbody) == 1 and len(tries) == 1
            chk.ob("R06.1", f"root:single-try-inside-with[{tag}]" if not ok else "root:single-try-inside-with", ok, where,
                   "inside the with block there is exactly one try statement holding everything" + ("" if ok else f" -- {Q.show(wbody, 200)}"), nontrivial=ok)
            if not ok:
                continue
            TR = tries[0]
            inner = TR.fields.get("body") or []
            outside = [x for x in (TR.fields.get("finalbody") or []) + (TR.fields.get("orelse") or []) if has_user_slot(x)]
            chk.ob("R06.1", "root:user-code-inside-try-body", not outside, where, "prologue and user statements are all in the try body")
        else:
            inner = wbody
            TR = None
        # #enter first
        stmts = [s for s, _, _ in Q.stmts_of(inner)]
        if en:
            ok = bool(stmts) and is_meta_expr(stmts[0], "#enter") and lib_role(Q.Interact(stmts[0].fields["value"]).ann) == "enter_tag"
            chk.ob("R06.1", f"root:#enter-first[{tag}]" if not ok else "root:#enter-first", ok, where,
                   "the #enter interaction (tagged enter) is the first statement, before any prologue interaction and any user statement"
                   + ("" if ok else f" -- first statement: {Q.show(stmts[0] if stmts else None, 160)}"), nontrivial=ok)
            n_enter = sum(1 for s in stmts if is_meta_expr(s, "#enter"))
            chk.ob("R06.1", "root:#enter-once", n_enter == 1, where, "exactly one #enter interaction per activation")
        if TR is not None:
            hs = TR.fields.get("handlers") or []
            if er:
                ok = len(hs) == 1 and isinstance(hs[0], Node) and hs[0].cls == "ExceptHandler"
                det = ""
                if ok:
                    h = hs[0]
                    ty = h.fields.get("type")
                    hb = [s for s, _, _ in Q.stmts_of(h.fields.get("body") or [])]
                    ok = (isinstance(ty, Node) and ty.cls == "Name" and ty.fields.get("id") == "BaseException" and h.fields.get("name") == "#error"
                          and len(hb) == 2 and is_meta_expr(hb[0], "#error") and isinstance(hb[1], Node) and hb[1].cls == "Raise" and not hb[1].fields.get("exc"))
                    if ok:
                        v = Q.Interact(hb[0].fields["value"]).value
                        ok = isinstance(v, Node) and v.cls == "Name" and v.fields.get("id") == "#error"
                    det = "" if ok else f" -- {Q.show(h, 220)}"
                chk.ob("R06.1", f"root:#error-handler[{tag}]" if not ok else "root:#error-handler", ok, where,
                       "one handler `except BaseException as #error:` reports #error with the exception object and re-raises" + det, nontrivial=ok)
            else:
                chk.ob("R06.1", "root:no-handler-when-#error-unselected", not hs, where, "no handler is emitted when #error is not selected")
            fb = [s for s, _, _ in Q.stmts_of(TR.fields.get("finalbody") or [])]
            if exi:
                ok = len(fb) == 1 and is_meta_expr(fb[0], "#exit") and lib_role(Q.Interact(fb[0].fields["value"]).ann) == "exit_tag"
                chk.ob("R06.1", f"root:#exit-in-finally[{tag}]" if not ok else "root:#exit-in-finally", ok, where,
                       "the #exit interaction (tagged exit) is the finally block of the try that holds the whole body: it runs on every way out" +
                       ("" if ok else f" -- finalbody: {Q.show(fb, 160)}"), nontrivial=ok)
                elsewhere = [s for s in stmts if is_meta_expr(s, "#exit")]
                chk.ob("R06.1", "root:#exit-only-in-finally", not elsewhere, where, "no #exit interaction outside the finally block")
            else:
                chk.ob("R06.1", "root:empty-finally-when-#exit-unselected", not fb, where, "no finally statement when #exit is not selected")
        elif exi or er:
            pass
        if not need_try and (exi or er):
            chk.ob("R06.1", f"root:try-present[{tag}]", False, where, "no try statement although #exit/#error is selected")

    from .shared import meta_tag_agreement_obligations
    meta_tag_agreement_obligations(repo, chk, "R06.1", H)
    # ------------------------------------------------------------------ R06.2
    # the analysis models SimpleVariableCollector(target).vars as "the names of the target": each name once, whatever the target repeats (`for _, v, _ in ..`)
    svc = repo.cls("transform.SimpleVariableCollector")
    inits = [n for m in svc.body if isinstance(m, ast.FunctionDef) and m.name == "__init__" for n in ast.walk(m)
             if isinstance(n, ast.Assign) and any(norm(t) == "self.vars" for t in n.targets)]
    is_set = len(inits) == 1 and (isinstance(inits[0].value, ast.Call) and norm(inits[0].value.func) == "set" or isinstance(inits[0].value, (ast.Set, ast.SetComp)))
    muts = [norm(n.func) for m in svc.body if isinstance(m, ast.FunctionDef) for n in ast.walk(m) if isinstance(n, ast.Call) and isinstance(n.func, ast.Attribute)
            and norm(n.func.value) == "self.vars"]
    chk.ob("R06.2", "transform.SimpleVariableCollector:each-loop-variable-once", is_set and bool(muts) and all(m_.endswith((".add", ".update")) for m_ in muts),
           f"ptera/transform.py:{svc.lineno}",
           f"the names of a loop target are collected in a set (`{norm(inits[0]) if inits else 'no assignment to self.vars'}`, filled by {sorted(set(muts))}): a target that binds one name twice "
           "(`for _, v, _ in rows`) still gets one #loop / #endloop pair per iteration")
    for p in H.get("visit_For", []):
        T = p.template
        if isinstance(T, Raise):
            continue
        where = "ptera/transform.py (visit_For/delimit)"
        tag = ",".join(f"{k.split('|')[1]}:{k.split('|')[2]}={'T' if v else 'F'}" for k, v in p.decisions if k.startswith("kind|"))
        if isinstance(T, list):
            # the handler hands back a statement list: the loop is the For statement in it (statements around it are C01's business, not this rule's)
            fors = [x for x in T if isinstance(x, Node) and x.cls == "For"]
            if len(fors) == 1:
                T = fors[0]
        if not (isinstance(T, Node) and T.cls == "For"):
            # the handler returns something other than one For statement (a statement list, a different node): the loop brackets cannot be located
            chk.ob("R06.2", f"for:rewritten-loop-is-a-For-statement[{tag}]", False, where,
                   f"visit_For no longer returns a single For statement ({Q.show(T, 160)}): #loop / #endloop brackets are defined on the loop the user wrote", nontrivial=False)
            continue
        body = T.fields.get("body") or []
        tries = [s for s in body if isinstance(s, Node) and s.cls == "Try"]
        ok = len(body) == 1 and len(tries) == 1
        chk.ob("R06.2", f"for:body-is-one-try[{tag}]" if not ok else "for:body-is-one-try", ok, where,
               "the loop body is exactly one try statement" + ("" if ok else f" -- {Q.show(body, 200)}"), nontrivial=ok)
        if not ok:
            continue
        TR = tries[0]
        tb = Q.stmts_of(TR.fields.get("body") or [])
        fb = Q.stmts_of(TR.fields.get("finalbody") or [])
        loops = [s for s, _, _ in tb if is_meta_expr(s, "#loop_*")]
        ends_in_body = [s for s, _, _ in tb if is_meta_expr(s, "#endloop_*")]
        ends = [s for s, _, _ in fb if is_meta_expr(s, "#endloop_*")]
        first = tb[0][0] if tb else None
        chk.ob("R06.2", "for:#loop-first", bool(loops) and is_meta_expr(first, "#loop_*"), where,
               "the #loop_v interactions come first in the iteration, before the target interactions and the user body")
        chk.ob("R06.2", "for:#endloop-in-finally", bool(ends) and not ends_in_body and all(is_meta_expr(s, "#endloop_*") for s, _, _ in fb), where,
               "the #endloop_v interactions are the finally block of the iteration (run on fall-through, continue, break, return and raise)")
        user_out = [x for x in (TR.fields.get("finalbody") or []) if has_user_slot(x)]
        chk.ob("R06.2", "for:user-body-inside-try", not user_out and any(isinstance(x, Visit) for x in walk(TR.fields.get("body"))), where,
               "the user's loop body is inside the try body")
        # same name family for loop / endloop: both iterate over the names of the target
        def over_of(stmts):
            return sorted({x.over for x in walk(stmts) if isinstance(x, Star) and "names(" in x.over})
        chk.ob("R06.2", "for:one-pair-per-target-name", over_of(TR.fields.get("body")) == over_of(TR.fields.get("finalbody")) != [], where,
               "one #loop_v / #endloop_v pair per name v of the loop target")
        orelse = T.fields.get("orelse")
        chk.ob("R06.2", "for:orelse-outside-bracket", not any(Q.is_interact(x) for x in walk(orelse)) and
               any(isinstance(x, Visit) and isinstance(x.x, In) and x.x.path.startswith("node.orelse") for x in walk(orelse)), where,
               "the else clause of the loop is outside the per-iteration bracket")

    # ------------------------------------------------------------------ R06.3
    for p in H.get("visit_Return", []):
        d = dict(p.decisions)
        T = p.template
        where = "ptera/transform.py (visit_Return)"
        if d.get("instrument|'#value'|None"):
            v = T.fields.get("value") if isinstance(T, Node) and T.cls == "Return" else None
            ok = Q.is_interact(v)
            if ok:
                ix = Q.Interact(v)
                val = ix.value
                want_slot = d.get("present|node.value")
                ok = meta_of(ix) == "#value" and Q.const(ix.overridable) is True and (
                    (want_slot and isinstance(val, Visit) and isinstance(val.x, In) and val.x.path == "node.value") or
                    (not want_slot and isinstance(val, Node) and val.cls == "Constant" and val.fields.get("value") is None))
            chk.ob("R06.3", f"return:value-event[{'value' if d.get('present|node.value') else 'bare'}]", ok, where,
                   "return X becomes return interact('#value', X-or-None): the reported value is the value returned" + ("" if ok else f" -- {Q.show(T, 200)}"))
    for p in H.get("visit_Yield", []):
        d = dict(p.decisions)
        T = p.template
        where = "ptera/transform.py (visit_Yield)"
        y_on = d.get("instrument|'#yield'|Name(LIB(exit_tag):Load)")
        r_on = d.get("instrument|'#receive'|Name(LIB(enter_tag):Load)")
        if y_on is None or r_on is None:
            chk.ob("R06.3", "yield:tags-at-emitting-sites", False, where, f"#yield/#receive are not emitted with the exit/enter tags: decisions {sorted(d)}")
            continue
        ynode = T
        if r_on:
            ok = Q.is_interact(T) and meta_of(Q.Interact(T)) == "#receive"
            ynode = Q.Interact(T).value if ok else None
            chk.ob("R06.3", "yield:#receive-wraps-the-yield-expression", ok and isinstance(ynode, Node) and ynode.cls == "Yield", where,
                   "the value sent into the generator is reported by interact('#receive', <yield expression>) on resumption")
        if isinstance(ynode, Node) and ynode.cls == "Yield":
            yv = ynode.fields.get("value")
            if y_on:
                ok = Q.is_interact(yv) and meta_of(Q.Interact(yv)) == "#yield"
                if ok:
                    val = Q.Interact(yv).value
                    ok = (isinstance(val, Visit) and isinstance(val.x, In) and val.x.path == "node.value") if d.get("present|node.value") else \
                        (isinstance(val, Node) and val.cls == "Constant" and val.fields.get("value") is None)
                chk.ob("R06.3", f"yield:#yield-before-suspension[{'value' if d.get('present|node.value') else 'bare'}]", ok, where,
                       "the yielded value goes through interact('#yield', value) inside the yield expression, i.e. before the generator suspends")
        else:
            chk.ob("R06.3", "yield:stays-a-yield", False, where, f"the rewritten expression is not a yield any more -- {Q.show(T, 160)}")

    # ------------------------------------------------------------------ R06.4
    all_ix = [(h, ix) for h, ps in H.items() for p in ps for ix in Q.interacts(p.template)]
    value_sites = sorted({h for h, ix in all_ix if meta_of(ix) == "#value"})
    fall_through = any(meta_of(ix) == "#value" for h, ix in all_ix if h.startswith("visit_FunctionDef"))
    chk.ob("R06.4", "root:#value-on-fall-through", fall_through, "ptera/transform.py (visit_FunctionDef)",
           f"#value is only emitted at return statements ({value_sites}); a function that falls off the end completes normally without any #value event")
    at_return = any(h == "visit_Return" for h in value_sites)
    chk.ob("R06.4", "return:#value-not-supersedable-by-finally", not at_return or fall_through and False, "ptera/transform.py (visit_Return)",
           "the #value interaction is evaluated at the return statement, inside any enclosing user try/finally: `try: return 1 finally: return 2` "
           "reports #value twice (1, then 2) for one normal completion that returns 2")

    # ------------------------------------------------------------------ R06.5
    unvisited_slot_obligations(chk, "R06.5", H, want_expr=True)

    # ------------------------------------------------------------------ R06.6
    emitted = {}
    for h, ix in all_ix:
        m = meta_of(ix)
        if m:
            emitted.setdefault(m, set()).add(lib_role(ix.ann) or ("None" if Q.const(ix.ann, 0) is None else "?"))
    hv = repo.module_assign("selector", "_valid_hashvars")
    valid = [e.value for e in hv.elts] if isinstance(hv, (ast.Tuple, ast.List)) else None
    if valid is None:
        raise AnalysisError("selector._valid_hashvars is not a literal tuple")
    plain = {m for m in emitted if not m.endswith("*")}
    for m in sorted(plain):
        chk.ob("R06.6", f"emitted:{m}:accepted-by-verification", m in valid, "ptera/selector.py (_valid_hashvars)", f"the emitted meta variable {m} is a documented, accepted hashvar")
    for m in sorted(valid):
        chk.ob("R06.6", f"valid:{m}:is-emitted", m in plain, "ptera/selector.py (_valid_hashvars)", f"the accepted hashvar {m} is emitted by some template (a probe on it can fire)")
    si = repo.func("transform._standard_info")
    info = {}
    for n in walk_local(si.node):
        if isinstance(n, ast.Return) and isinstance(n.value, ast.Dict):
            for k, v in zip(n.value.keys, n.value.values):
                if isinstance(k, ast.Constant) and isinstance(v, ast.Dict):
                    row = {kk.value: vv for kk, vv in zip(v.keys, v.values) if isinstance(kk, ast.Constant)}
                    info[k.value] = row
    if not info:
        raise AnalysisError("transform._standard_info: literal table not found")
    for name, row in sorted(info.items()):
        ann = norm(row.get("annotation")) if row.get("annotation") is not None else None
        em = emitted.get(name, set())
        chk.ob("R06.6", f"_standard_info:{name}:tag-matches-emitting-site", em == {ann}, si.where,
               f"{name} is declared with annotation {ann}; the emitting site passes {sorted(em) or 'nothing (never emitted)'}")
        chk.ob("R06.6", f"_standard_info:{name}:name-field", norm(row.get("name")) == repr(name), si.where, "the table row is filed under its own name")
    tagged = {m for m, tags in emitted.items() if tags - {"None"}}
    chk.ob("R06.6", "_standard_info:covers-tagged-meta-variables", tagged - {m for m in tagged if m.endswith("*")} <= set(info), si.where,
           f"every meta variable emitted with a tag ({sorted(tagged)}) has its annotation recorded (so tag selectors and verification can see it)")
    from .shared import variant_selection_obligations
    variant_selection_obligations(repo, chk, "R06.6")
    pr = repo.func("selector.Call.problems")
    fpr = facts_of(pr)
    reports = [set(c) for t_, c, n in fpr.starting("problems.append(") if isinstance(n, ast.Call)]
    chk.ob("R06.6", "selector.Call.problems:loop-prefixes", bool(reports) and not any("x.name.startswith('#endloop_') or x.name.startswith('#loop_')" in c for c in reports)
           and any("not x.name.startswith('#loop_')" in c and "not x.name.startswith('#endloop_')" in c for c in reports), pr.where,
           "loop meta variables (#loop_v, #endloop_v) are accepted by prefix")
    chk.ob("R06.6", "selector.Call.problems:unknown-hashvar-refused", any({"x.name not in _valid_hashvars", "x.name.startswith('#')"} <= c for c in reports), pr.where,
           "any other #name that is not documented is reported as a problem")
    loopfam = {m for m in emitted if m.endswith("*")}
    chk.ob("R06.6", "emitted:loop-families", loopfam == {"#loop_*", "#endloop_*"}, "ptera/transform.py (visit_For)", f"loop meta families emitted: {sorted(loopfam)}")
    fs = repo.func("overlay.fits_selector")
    ff = facts_of(fs)
    refusals = [set(c) for t_, c, n in ff.items if isinstance(n, ast.Return) and t_ == "return False" and "cap.name is not None" in c]
    ok = bool(refusals) and all("not cap.name.startswith('#')" in c for c in refusals)
    chk.ob("R06.6", "overlay.fits_selector:hashvars-exempt", ok, fs.where, "meta variables are not required to be in the function's variable table when a selector level is fitted")
