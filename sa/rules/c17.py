"""C17 - a probe's stream opens once, completes once at exit, and is silent outside."""
import ast
import os

from ..astq import facts_of, is_name, is_self_attr, parse_fixture
from ..callgraph import CallGraph
from ..cfg import CFG
from ..core import AnalysisError, norm, walk_local, FuncInfo
from ..pairing import classify_stmt, contextvars_of, node_probe, released_on_all_normal_paths


def giving_source():
    for base in ("/venv/lib/python3.12/site-packages", ):
        p = os.path.join(base, "giving", "gvn.py")
        if os.path.exists(p):
            return p
    import glob
    c = glob.glob("/venv/lib/python3*/site-packages/giving/gvn.py")
    if c:
        return c[0]
    raise AnalysisError("dependency source giving/gvn.py not found (needed for the SourceProxy summary)")


def guard_rule(fn_node, ctxvars, flag="_activated"):
    """-> dict of facts about the single-activation guard in an _enter-like function."""
    g = CFG(fn_node, lambda s: isinstance(s, (ast.Raise, ast.Assert)))
    tests = [n for n in g.nodes if n.kind == "test" and norm(n.stmt.test) in (f"self.{flag}", f"self.{flag} is True", f"self.{flag} == True")]
    acq = []
    for n in g.nodes:
        pr = node_probe(n) if n.stmt is not None else None
        if pr is not None and any(k == "acq" for _, k, _ in classify_stmt(pr, ctxvars)):
            acq.append(n)
    facts = {"tests": len(tests), "acquires": [a.text() for a in acq]}
    if not tests:
        facts.update(dominated=False, refusing=False)
        return facts
    t = tests[0]
    # every path entry -> acquire passes the test
    facts["dominated"] = all(not g.path_exists(g.entry, a, avoid=[t]) for a in acq) and bool(acq)
    # the true branch of the test never reaches an acquire nor the normal exit
    true_succ = [m for m, lab in t.succ if lab == "t"]
    reach = set()
    for m in true_succ:
        reach |= {m.id} | g.reach([m])
    facts["refusing"] = bool(true_succ) and not any(a.id in reach for a in acq) and g.exit.id not in reach
    sets = [n for n in g.nodes if n.kind == "stmt" and isinstance(n.stmt, ast.Assign) and any(is_self_attr(x, flag) for x in n.stmt.targets)
            and isinstance(n.stmt.value, ast.Constant) and n.stmt.value.value is True]
    facts["set_on_success"] = bool(sets) and not g.path_exists(g.entry, g.exit, avoid=sets, labels=("n", "t", "f"))
    return facts


def run(repo, chk):
    chk.explanation = (
        "Decides the structural clauses of C17: in Probe._enter the `_activated` test dominates every acquisition and its true "
        "branch only raises; the flag is set on every successful path, initialised to False in the constructor and cleared nowhere; "
        "activate/deactivate delegate to __enter__/__exit__; _exit releases what _enter acquired; events reach the stream only "
        "through _emit/_emit2 -> _push; ptera never completes observers itself: completion and observer clearing happen exactly "
        "once in the dependency's SourceProxy.__exit__, before Probe._exit detaches the overlay (summary re-derived from the "
        "installed giving source on every run); global probes are completed by an atexit hook iterating over a copy. "
        "Results of reductions and the behaviour of late subscribers (reactivex) are not decided.")
    chk.not_decided += ["values published by reductions (min/max/count...)", "late subscribers inside reactivex"]
    chk.assumptions += ["giving.gvn.SourceProxy as installed in /venv (its __enter__/__exit__/_push are re-read on every run)"]
    chk.rule("R17.1", "single-activation guard: the `_activated` test dominates every acquisition in _enter, its true branch only raises, "
                      "the flag is set on every successful path and never cleared", 6)
    chk.rule("R17.2", "_exit releases on every normal path what _enter acquires (overlay, global_probes membership, tooling)", 3)
    chk.rule("R17.3", "who may push/complete: _push only from _emit/_emit2; no on_completed/on_error call in ptera; SourceProxy.__exit__ completes "
                      "every observer, clears them, then calls _exit; SourceProxy.__enter__ reaches _enter of the root once", 7)
    chk.rule("R17.4", "global probes are deactivated by an atexit hook that iterates over a copy of the set", 2)

    ctxvars = contextvars_of(repo)
    en, ex = repo.func("probe.Probe._enter"), repo.func("probe.Probe._exit")

    # fixtures
    bad = parse_fixture("def _enter(self):\n    self._install_tooling()\n    if self._activated:\n        raise Exception('x')\n    self._activated = True\n").body[0]
    good = parse_fixture("def _enter(self):\n    if self._activated:\n        raise Exception('x')\n    self._install_tooling()\n    self._activated = True\n").body[0]
    chk.fixture("R17.1", "guard after acquisition", True, not guard_rule(bad, ctxvars)["dominated"])
    chk.fixture("R17.1", "guard first", False, not guard_rule(good, ctxvars)["dominated"])

    f = guard_rule(en.node, ctxvars)
    chk.analysed["_enter acquisitions"] = f["acquires"]
    from .shared import refused_enter_obligations
    refused_enter_obligations(repo, chk, "R17.1")
    from .shared import close_order_obligations
    close_order_obligations(repo, chk, "R17.3", "the end-of-call events of several total probes on one function are published in activation order: an earlier probe has its event before a later probe's subscriber can deactivate it")
    from .shared import installs_selected_variant_obligations
    installs_selected_variant_obligations(repo, chk, "R17.2", "once the last probe on a function is deactivated the function runs its original code again, so handlers that survive in some context (a copied context, a collection restored out of order) hear nothing from it")
    from .shared import call_exit_order_obligations
    call_exit_order_obligations(repo, chk, "R17.2", "a subscriber that deactivates its probe at the end of a call does not have the probe's handlers put back by the call's own reset")
    from .shared import refused_exit_obligations
    refused_exit_obligations(repo, chk, "R17.1")
    chk.ob("R17.1", "probe.Probe._enter:guard-present", f["tests"] == 1, en.where, "exactly one test of self._activated")
    chk.ob("R17.1", "probe.Probe._enter:guard-dominates-acquisitions", f["dominated"], en.where,
           f"every path to an acquisition ({f['acquires']}) passes the `_activated` test first")
    chk.ob("R17.1", "probe.Probe._enter:second-activation-refused", f["refusing"], en.where,
           "when already activated, _enter raises without acquiring anything (refusal disturbs nothing)")
    chk.ob("R17.1", "probe.Probe._enter:flag-set-on-success", f.get("set_on_success", False), en.where,
           "every successful activation sets _activated = True")
    init = repo.func("probe.Probe.__init__")
    inits = [n for n in walk_local(init.node) if isinstance(n, ast.Assign) and any(is_self_attr(t, "_activated") for t in n.targets)]
    chk.ob("R17.1", "probe.Probe.__init__:flag-starts-false", len(inits) == 1 and isinstance(inits[0].value, ast.Constant) and inits[0].value.value is False,
           init.where, "the constructor initialises _activated = False")
    clears = []
    for q, fi in repo.functions.items():
        for n in walk_local(fi.node):
            if isinstance(n, (ast.Assign, ast.AugAssign, ast.Delete)):
                tg = n.targets if hasattr(n, "targets") else [n.target]
                for t in tg:
                    if isinstance(t, ast.Attribute) and t.attr == "_activated" and not (q == init.qual) \
                            and not (isinstance(n, ast.Assign) and isinstance(n.value, ast.Constant) and n.value.value is True):
                        clears.append(f"{q}: {norm(n)}")
            if isinstance(n, ast.Call) and is_name(n.func, "setattr") and any(isinstance(a, ast.Constant) and a.value == "_activated" for a in n.args):
                clears.append(f"{q}: {norm(n)}")
    chk.ob("R17.1", "package:flag-never-cleared", not clears, "ptera/", f"_activated is never reset after activation {clears}")
    for m, d in (("activate", "__enter__"), ("deactivate", "__exit__")):
        fi = repo.func(f"probe.Probe.{m}")
        calls = [c for c in ast.walk(fi.node) if isinstance(c, ast.Call) and norm(c.func) == f"self.{d}"]
        unguarded = bool(calls) and not any(isinstance(a_, (ast.If, ast.Try, ast.While, ast.For)) for a_ in _anc(calls[0], fi.node))
        chk.ob("R17.1", f"probe.Probe.{m}:delegates", len(calls) == 1 and len(fi.node.body) <= 2 and unguarded, fi.where,
               f"{m}() is exactly self.{d}(...) (one lifecycle for with-blocks and global probes)")

    # R17.2
    wanted = {}
    for st in walk_local(en.node):
        if isinstance(st, ast.stmt) and not isinstance(st, (ast.If, ast.For, ast.While, ast.With, ast.Try, ast.FunctionDef)):
            for res, kind, detail in classify_stmt(st, ctxvars):
                if kind == "acq":
                    wanted[res] = detail
    for res, detail in sorted(wanted.items()):
        ok, path, nrel = released_on_all_normal_paths(ex, res, ctxvars)
        chk.ob("R17.2", f"probe.Probe._exit:releases:{res}", ok, ex.where,
               f"_exit releases {res} ({detail}) on every normal path" + ("" if ok else f" -- path: {path}"))
    if len(wanted) < 3:
        chk.ob("R17.2", "probe.Probe._enter:acquires-overlay-membership-tooling", False, en.where,
               f"_enter acquires {sorted(wanted)}; expected the overlay, global_probes membership and tooling")

    from .c05 import token_sites
    oen, oex = repo.func("overlay.BaseOverlay.__enter__"), repo.func("overlay.BaseOverlay.__exit__")
    toks = [tok for fi_, call, st, tok in token_sites(repo, ctxvars) if fi_.qual == oen.qual]
    resets = [norm(c.args[0]) for c in ast.walk(oex.node) if isinstance(c, ast.Call) and isinstance(c.func, ast.Attribute) and c.func.attr == "reset" and c.args]
    ok = len(toks) == 1 and toks[0] is not None and toks[0].startswith("self.") and resets == [toks[0]]
    chk.ob("R17.2", "overlay.BaseOverlay:deactivation-removes-this-probe's-handlers", ok, oex.where,
           f"the overlay behind a probe restores the context with the token its own activation stored on the instance ({toks} vs {resets}): after deactivate() the probe's handlers are no longer installed, "
           "whatever other probes were activated or deactivated in between is decided by C05 R05.3")
    from ..pairing import journal_findings
    from ..callgraph import CallGraph
    cg_ = CallGraph(repo)
    for jq in ("probe.Probe._install_tooling", "overlay.autotool"):
        jf = repo.func(jq)
        for journal, res, site, ok_, detail in journal_findings(repo, jf, cg_, ctxvars):
            chk.ob("R17.1", f"{jq}:a-refused-activation-disturbs-nothing[{journal}:{site}]", ok_, jf.where,
                   f"an activation that is refused undoes exactly what it had done ({jq}, journal `{journal}`): probes that are active on the same functions keep their instrumentation, so their streams and reductions see every event of their active period"
                   if ok_ else detail)
    # R17.3
    pushers = sorted({q for q, fi in repo.functions.items() for c in walk_local(fi.node)
                      if isinstance(c, ast.Call) and isinstance(c.func, ast.Attribute) and c.func.attr == "_push"})
    chk.ob("R17.3", "package:_push-callers", set(pushers) <= {"probe.Probe._emit", "probe.Probe._emit2"} and bool(pushers), "ptera/probe.py",
           f"events are pushed to the stream only by the emitters ({pushers})")
    completers = sorted({f"{q}:{c.func.attr}" for q, fi in repo.functions.items() for c in walk_local(fi.node)
                         if isinstance(c, ast.Call) and isinstance(c.func, ast.Attribute) and c.func.attr in ("on_completed", "on_error")})
    chk.ob("R17.3", "package:no-direct-completion", not completers, "ptera/", f"ptera never completes or errors observers itself {completers}")
    # emitters are installed as the handler slots of the rules
    mr = repo.func("probe.Probe._make_rule")
    chk.ob("R17.3", "probe.Probe._make_rule:emitter-is-the-handler", facts_of(mr).mentions("trigger=self._make_emitter(sel)") and facts_of(mr).mentions("close=self._make_emitter(sel)"), mr.where,
           "the only handler attached to a probe's selector is its emitter")
    # dependency summary, re-derived
    src = giving_source()
    tree = ast.parse(open(src).read())
    sp = next((n for n in tree.body if isinstance(n, ast.ClassDef) and n.name == "SourceProxy"), None)
    if sp is None:
        raise AnalysisError("giving.gvn.SourceProxy not found")
    meth = {n.name: n for n in sp.body if isinstance(n, ast.FunctionDef)}
    for m in ("__enter__", "__exit__", "_push"):
        if m not in meth:
            raise AnalysisError(f"giving.gvn.SourceProxy.{m} not found")
    xt = [norm(s) for s in meth["__exit__"].body]
    root_branch = xt[0].startswith("if self._root is not self") and "return" in xt[0]
    tail = xt[1:]
    ok = root_branch and len(tail) == 3 and tail[0].replace(" ", "") == "forobsinself._observers:obs.on_completed()" \
        and tail[1] == "self._observers.clear()" and tail[2] == "self._exit()"
    chk.ob("R17.3", "giving.SourceProxy.__exit__:complete-clear-then-_exit", ok, src,
           "SourceProxy.__exit__ completes every observer once, clears the observer list, and only then calls _exit "
           "(so no event can arrive after completion and a second exit completes nobody)")
    et = [norm(s) for s in meth["__enter__"].body]
    ok = et[0].startswith("if self._root is not self") and "self._root.__enter__()" in et[0] and "self._enter()" in et[1:][0]
    chk.ob("R17.3", "giving.SourceProxy.__enter__:root-_enter-once", ok, src, "entering any derived stream enters the root probe's _enter exactly once")
    pt = " ".join(norm(s) for s in meth["_push"].body if not (isinstance(s, ast.Expr) and isinstance(s.value, ast.Constant)))
    chk.ob("R17.3", "giving.SourceProxy._push:on_next-to-current-observers", pt.replace(" ", "") == "forobsinself._observers:obs.on_next(data)", src,
           "_push delivers to the observers currently attached (pipelines attached later see only later events)")
    pr = repo.cls("probe.Probe")
    chk.ob("R17.3", "probe.Probe:extends-SourceProxy", any(is_name(b, "SourceProxy") for b in pr.bases) and "__enter__" not in
           {n.name for n in pr.body if isinstance(n, ast.FunctionDef)} and "__exit__" not in {n.name for n in pr.body if isinstance(n, ast.FunctionDef)},
           f"ptera/probe.py:{pr.lineno}", "Probe inherits __enter__/__exit__ from SourceProxy unchanged")

    # R17.4
    tg = repo.func("probe._terminate_global_probes")
    deco = [norm(d) for d in tg.node.decorator_list]
    mod_calls = [norm(st.value) for st in repo.module("probe").tree.body if isinstance(st, ast.Expr) and isinstance(st.value, ast.Call)]
    chk.ob("R17.4", "probe._terminate_global_probes:atexit", "atexit.register" in deco or "atexit.register(_terminate_global_probes)" in mod_calls, tg.where,
           "registered with atexit (as a decorator, or by a module-level call after the definition: register() returns the function unchanged)")
    loops = [n for n in walk_local(tg.node) if isinstance(n, ast.For)]
    ok = len(loops) == 1 and norm(loops[0].iter) in ("list(global_probes)", "tuple(global_probes)", "set(global_probes)", "global_probes.copy()") \
        and any(isinstance(c, ast.Call) and isinstance(c.func, ast.Attribute) and c.func.attr == "deactivate" for c in ast.walk(loops[0]))
    chk.ob("R17.4", "probe._terminate_global_probes:iterates-copy", ok, tg.where,
           "deactivates every remaining global probe, iterating over a copy (deactivate mutates the set)")


def _anc(n, fn):
    cur = getattr(n, "_parent", None)
    while cur is not None and cur is not fn:
        yield cur
        cur = getattr(cur, "_parent", None)
