"""C14 - absolute references stay resolvable: registry update before every code swap, discard marks on helper
function objects, refstring builder/resolver agreement."""
import ast

from ..astq import expand as expand_, facts_of, is_name, kwarg, parse_fixture, returns_of, stmt_of
from ..cfg import CFG
from ..core import AnalysisError, norm, walk_local, dotted

OUT_OF_SCOPE = {
    # reachable only from codefind's hot-patching entry point, outside the histories C14 quantifies over
    "transform._Conformer.__conform__": "hot patching through codefind.conform (jurigged); not an operation of the property",
}


def code_stores(fn):
    out = []
    for n in walk_local(fn):
        if isinstance(n, ast.Assign):
            for t in n.targets:
                if isinstance(t, ast.Attribute) and t.attr == "__code__":
                    out.append((n, t, n.value))
    return out


def registry_dominates(fn_node, store_stmt, target, value):
    """update_cache_entry(<target>, <target>.__code__, <value>) on every path to the store (ImportError fallback exempt)."""
    g = CFG(fn_node, lambda s: False)
    # cut the `except ImportError` fallbacks: the registry is optional only when codefind is not installed
    for n in g.nodes:
        if n.kind == "handler" and n.note == "ImportError":
            for p, lab in list(n.pred):
                p.succ = [(m, l) for m, l in p.succ if m is not n]
            n.pred = []
    # a try body may also be left at its first statement (the import itself) through the dispatch node
    for n in g.nodes:
        if n.kind == "dispatch":
            n.succ = [(m, l) for m, l in n.succ if not (m.kind == "handler" and m.note == "ImportError")]
    stores = [n for n in g.nodes if n.stmt is store_stmt]
    ups = []
    for n in g.nodes:
        if n.kind == "stmt" and n.stmt is not None:
            for c in ast.walk(n.stmt):
                if isinstance(c, ast.Call) and isinstance(c.func, ast.Attribute) and c.func.attr == "update_cache_entry" and len(c.args) == 3:
                    a0, a1, a2 = (norm(x) for x in c.args)
                    if a0 == norm(target) and a1 == f"{norm(target)}.__code__" and a2 == norm(value):
                        ups.append(n)
    if not stores:
        raise AnalysisError("code store not found in CFG")
    if not ups:
        return False, "no code_registry.update_cache_entry(<fn>, <fn>.__code__, <new code>) with matching arguments"
    ok = all(not g.path_exists(g.entry, s, avoid=ups) for s in stores)
    return ok, "" if ok else "a path reaches the code store without passing the registry update: " + " -> ".join(g.witness_path(g.entry, stores[0], avoid=ups) or [])


def helper_creations(fi):
    """Statements in `fi` that create a function object sharing or lending code: types.FunctionType(code=...) / transform(...)."""
    out = []
    for n in walk_local(fi.node):
        if isinstance(n, ast.Assign) and isinstance(n.value, ast.Call):
            d = dotted(n.value.func) or ""
            if d.endswith("FunctionType") or d == "transform":
                out.append((n, norm(n.targets[0]), d))
        elif isinstance(n, ast.Return) and isinstance(n.value, ast.Call) and (dotted(n.value.func) or "") == "transform":
            out.append((n, None, "transform"))
    # a creation that is neither named nor returned as is (an argument of another call, say) cannot be marked at all
    direct = {id(st.value) for st, _, _ in out}
    local = {a.arg for f in ast.walk(fi.node) if isinstance(f, (ast.FunctionDef, ast.AsyncFunctionDef, ast.Lambda)) for a in ast.walk(f.args) if isinstance(a, ast.arg)} | \
        {x.id for x in ast.walk(fi.node) if isinstance(x, ast.Name) and isinstance(x.ctx, ast.Store)}
    for n in walk_local(fi.node):
        if isinstance(n, ast.Call) and id(n) not in direct:
            d = dotted(n.func) or ""
            if (d.endswith("FunctionType") or d == "transform") and d.split(".")[0] not in local:
                out.append((stmt_of(n), "<anonymous>", d))
    return out


def marked_before_exit(fn_node, create_stmt, var):
    g = CFG(fn_node, lambda s: False)
    src = [n for n in g.nodes if n.stmt is create_stmt]
    marks = [n for n in g.nodes if n.kind == "stmt" and isinstance(n.stmt, ast.Assign)
             and any(norm(t) == f"{var}.__ptera_discard__" for t in n.stmt.targets)
             and isinstance(n.stmt.value, ast.Constant) and n.stmt.value.value is True]
    if not src:
        raise AnalysisError("creation statement not found in CFG")
    if not marks:
        return False
    return not g.path_exists(src[0], g.exit, avoid=marks, labels=("n", "t", "f"))


def long_lived_use(fi, var):
    """Does `var` (or its __code__) flow to something that outlives the call?"""
    uses = []
    for n in walk_local(fi.node):
        if isinstance(n, ast.Assign):
            v = norm(n.value)
            for t in n.targets:
                if isinstance(t, ast.Attribute) and (v == var or v == f"{var}.__code__") and not norm(t).startswith(var + "."):
                    uses.append(norm(n))
        if isinstance(n, ast.Call) and isinstance(n.func, ast.Attribute) and is_name(n.func.value, "self") and n.func.attr.startswith("_register"):
            if any(norm(a) == var for a in n.args):
                uses.append(norm(n))
    if var.startswith("self."):
        uses.append(f"{var} is an attribute of a long-lived object")
    return uses


def verifier_called_on_same_pair(rs, ve):
    """refstring hands the verifier exactly the module and the path it built the reference from, whatever the verifier's signature
    (`(module, *path)`, `(path, module)`, keywords): each argument is one of the two names, both occur, and inside the verifier the lookup is
    `codefind.find_code(*<its path parameter>, module=<its module parameter>)` (checked by the same-lookup obligation on parameter names)."""
    calls = [n for n in walk_local(rs.node) if isinstance(n, ast.Call) and norm(n.func) == "_verify_existence"]
    if len(calls) != 1:
        return False
    c = calls[0]
    given = [norm(a.value) if isinstance(a, ast.Starred) else norm(a) for a in c.args] + [norm(k.value) for k in c.keywords]
    if sorted(given) != ["module", "path"]:
        return False
    params = [a.arg for a in ve.node.args.args] + ([ve.node.args.vararg.arg] if ve.node.args.vararg else [])
    bound = {}
    pos = [a for a in c.args]
    for p_, a in zip([a.arg for a in ve.node.args.args], pos):
        if isinstance(a, ast.Starred):
            break
        bound[p_] = norm(a)
    if ve.node.args.vararg and any(isinstance(a, ast.Starred) for a in pos):
        bound[ve.node.args.vararg.arg] = norm(next(a for a in pos if isinstance(a, ast.Starred)).value)
    for k in c.keywords:
        bound[k.arg] = norm(k.value)
    # the parameter that receives `path` is the one star-unpacked into find_code, the one that receives `module` is its module keyword
    finds = [n for n in walk_local(ve.node) if isinstance(n, ast.Call) and norm(n.func) == "codefind.find_code"]
    if len(finds) != 1:
        return False
    f = finds[0]
    star = [norm(a.value) for a in f.args if isinstance(a, ast.Starred)]
    modkw = [norm(k.value) for k in f.keywords if k.arg == "module"]
    return len(star) == 1 and len(modkw) == 1 and bound.get(star[0]) == "path" and bound.get(modkw[0]) == "module"


def run(repo, chk):
    chk.explanation = (
        "Decides the structural clauses of C14: every store to a function's __code__ reachable from probing / tooling is dominated, in "
        "the same function, by code_registry.update_cache_entry(fn, fn.__code__, new) with the same function and the same new code "
        "(only the `except ImportError` fallback is exempt); every function object ptera creates that shares or lends a code object "
        "(types.FunctionType(code=fn.__code__), results of transform() whose code is installed elsewhere or that are cached) is "
        "marked __ptera_discard__ = True on every path before it is kept, while the user's own function is never marked; the "
        "refstring builder and the '/module/path' resolver use inverse separators and the same find_code call shape. Histories of "
        "activate/resolve and codefind's own behaviour are not decided (dependency).")
    chk.not_decided += ["histories of {activate, deactivate, resolve}: only the per-swap invariant is decided", "codefind's registry implementation (dependency)"]
    chk.assumptions += ["codefind.registry.CodeRegistry: update_cache_entry moves obj between functions[old]/functions[new] and re-points the paths of old; "
                        "find_code reads currcodes; get_functions(code) = function referrers of code (read from the installed source)"]
    chk.rule("R14.1", "registry before swap: every `X.__code__ = new` is dominated by update_cache_entry(X, X.__code__, new) in the same function", 1)
    chk.rule("R14.2", "helper function objects that share/lend a code object are marked __ptera_discard__ = True before they are kept; the user's function never is", 3)
    chk.rule("R14.3", "refstring builder and slash resolver agree on separators, the __main__ convention and the find_code call shape", 5)

    # fixtures
    fx = parse_fixture("def _apply(self, fn):\n    code = self.get()\n    fn.__code__ = code\n").body[0]
    st, t, v = code_stores(fx)[0]
    chk.fixture("R14.1", "swap without registry update", True, not registry_dominates(fx, st, t.value, v)[0])
    fx2 = parse_fixture("def _apply(self, fn):\n    code = self.get()\n    try:\n        from codefind import code_registry\n        code_registry.update_cache_entry(fn, fn.__code__, code)\n    except ImportError:\n        pass\n    fn.__code__ = code\n").body[0]
    st, t, v = code_stores(fx2)[0]
    chk.fixture("R14.1", "swap after registry update (ImportError fallback)", False, not registry_dominates(fx2, st, t.value, v)[0])

    # R14.1
    n_sites = 0
    for q, fi in sorted(repo.functions.items()):
        for st, tgt, val in code_stores(fi.node):
            if q in OUT_OF_SCOPE:
                chk.analysed.setdefault("out_of_scope_code_stores", []).append(f"{q}: {norm(st)} ({OUT_OF_SCOPE[q]})")
                continue
            n_sites += 1
            ok, why = registry_dominates(fi.node, st, tgt.value, val)
            chk.ob("R14.1", f"{q}:store[{norm(st)}]", ok, fi.where,
                   f"`{norm(st)}` is preceded on every path by the registry update for the same function and code" + (f" -- {why}" if not ok else ""))
    chk.count("code store sites", n_sites)

    # R14.2
    for q, fi in sorted(repo.functions.items()):
        if q in OUT_OF_SCOPE or q == "transform.transform":
            continue
        for st, var, kind in helper_creations(fi):
            chk.count("helper function creations")
            if var is None:
                chk.ob("R14.2", f"{q}:create[{kind}]:returned-to-user", True, fi.where,
                       f"the function made by {kind}() is returned directly to the caller (it becomes the user's function, with its own code)")
                continue
            if var == "<anonymous>":
                chk.ob("R14.2", f"{q}:create[{kind} inside `{norm(st)[:60]}`]:marked-discard", False, fi.where,
                       f"a function made by {kind}() is handed on without a name, so it cannot have been marked __ptera_discard__ = True")
                continue
            uses = long_lived_use(fi, var)
            returned = any(isinstance(r.value, ast.Name) and r.value.id == var for r in returns_of(fi.node) if r.value is not None)
            if not uses and returned:
                chk.ob("R14.2", f"{q}:create[{var} = {kind}]:returned-to-user", True, fi.where, f"`{var}` is only returned to the caller")
                continue
            if not uses:
                chk.ob("R14.2", f"{q}:create[{var} = {kind}]:transient", True, fi.where, f"`{var}` does not outlive the call")
                continue
            ok = marked_before_exit(fi.node, st, var)
            chk.ob("R14.2", f"{q}:create[{var} = {kind}]:marked-discard", ok, fi.where,
                   f"`{var}` made by {kind}() shares or lends its code object ({uses[0]}) and is marked __ptera_discard__ = True before the function returns"
                   + ("" if ok else " -- NOT marked: a '/module/path' reference resolved while it is alive finds two functions for one code object"))
    # the user's function is never marked
    bad = []
    for q in ("transform.SyncedStackedTransforms._apply", "overlay.inplace"):
        fi = repo.func(q)
        for n in walk_local(fi.node):
            if isinstance(n, ast.Assign) and any(norm(t) == "fn.__ptera_discard__" for t in n.targets) \
                    and not (isinstance(n.value, ast.Constant) and n.value.value is False):
                bad.append(f"{q}: {norm(n)}")
    chk.ob("R14.2", "package:user-function-not-discarded", not bad, "ptera/", f"the function the user holds is never marked as a helper {bad}")
    dr = repo.func("selector.dict_resolver.resolve")
    fdr = facts_of(dr)
    chk.ob("R14.2", "selector.dict_resolver.resolve:filters-discarded", fdr.mentions("if inspect.isfunction(fn) and (not getattr(fn, '__ptera_discard__', False))]"), dr.where,
           "the resolver ignores exactly the function objects marked __ptera_discard__")

    # R14.3
    br = repo.func("utils._build_refstring")
    r = returns_of(br.node)
    from ..astq import str_parts
    ok = len(r) == 1 and str_parts(r[0].value) == ["/", "{module}", "/", "{'/'.join(path)}"]
    chk.ob("R14.3", "utils._build_refstring:shape", ok, br.where, "reference = '/' module '/' path joined by '/'")
    ok = facts_of(br).has("module = ''", exactly=["module == '__main__'"])
    chk.ob("R14.3", "utils._build_refstring:main-is-empty", ok, br.where, "__main__ is written as the empty module")
    chk.ob("R14.3", "selector.dict_resolver.resolve:split", fdr.has("_, module, *hierarchy = x.split('/')", exactly=["x.startswith('/')"]), dr.where, "the resolver splits on '/' into (empty, module, *path)")
    chk.ob("R14.3", "selector.dict_resolver.resolve:main-convention", fdr.mentions("codefind.find_code(*hierarchy, module=module or '__main__')"), dr.where,
           "an empty module means __main__; the path is looked up with find_code(*path, module=...)")
    rs = repo.func("utils.refstring")
    ve = repo.func("utils._verify_existence") if repo.has_func("utils._verify_existence") else rs      # the existence check may be written inside refstring itself
    finds_ = [n for n in walk_local(ve.node) if isinstance(n, ast.Call) and norm(n.func) == "codefind.find_code"]
    same_lookup = len(finds_) == 1 and len([a for a in finds_[0].args if isinstance(a, ast.Starred)]) == 1 and len(finds_[0].args) == 1 \
        and [k.arg for k in finds_[0].keywords] == ["module"]
    chk.ob("R14.3", "utils._verify_existence:same-lookup", same_lookup, ve.where,
           "refstring() validates the reference with the same lookup the resolver uses")
    ei = repo.func("utils._extract_info")
    fei = facts_of(ei)
    chk.ob("R14.3", "utils._extract_info:qualname-path", (fei.mentions("qualname.split('.')") or fei.mentions("getattr(fn, '__qualname__', None).split('.')")) and fei.mentions("if p != '<locals>']")
           and any(t.startswith(("return (getattr(fn, '__module__', None), *", "return (module, *")) for t, _, n in fei.items if isinstance(n, ast.Return)), ei.where,
           "the path is __qualname__ split on '.', without the <locals> markers")
    chk.ob("R14.3", "utils.refstring:uses-builder-and-verifier", facts_of(rs).mentions("_build_refstring(module, *path)") and
           (ve is rs or verifier_called_on_same_pair(rs, ve)) and facts_of(rs).has("module, *path = _extract_info(fn)"),
           rs.where, "refstring() = builder + existence check on the same (module, path)")
    tr = repo.func("transform.transform")
    # the instrumented source is compiled as a top-level def: under which path does the code registry learn about it?
    ftr_ = facts_of(tr)
    comp = [n for t_, c_, n in ftr_.items if isinstance(n, ast.Call) and is_name(n.func, "_compile") and n.args]
    real_file = bool(comp) and all(expand_(c_.args[0], tr.node) in ("inspect.getsourcefile(fn)", "fn.__code__.co_filename") for c_ in comp)
    repaired = any(isinstance(n, ast.Call) and norm(n.func).endswith(("assimilate", "_setcodepaths", "update_cache_entry")) and "__qualname__" in t_ for t_, c_, n in ftr_.items)
    chk.ob("R14.3", "transform.transform:instrumented-code-filed-under-its-own-path", (not real_file) or repaired, tr.where,
           "the code compiled for an instrumented function reaches the code registry under the function's own path" if (not real_file) or repaired else
           "the instrumented source of EVERY function (methods and nested functions included) is compiled as a top-level `def <name>` of a module that carries the original file name, and nothing re-files it "
           "under the qualified path: codefind's audit hook registers it as (file, <name>), so after a probe on K.plain the reference /mod/plain designates the method")
    chk.ob("R14.3", "transform.transform:assimilates-original-code", facts_of(tr).mentions("code_registry.assimilate(fn.__code__, (fn.__code__.co_filename,))"), tr.where,
           "transform registers the original code object's path so that it is known to the registry before any swap")
