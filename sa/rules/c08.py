"""C08 - threads do not interfere: handler state is context-local (R08.1); every write to process-shared
instrumentation state happens under one common lock (R08.2, lockset over the call graph)."""
import ast

from ..astq import conds, is_name, is_self_attr, parse_fixture
from ..callgraph import CallGraph
from ..core import order, AnalysisError, norm, walk_local, dotted, FuncInfo
from ..pairing import contextvars_of

# operations of the property: activate / call / deactivate
ENTRY_POINTS = ["probe.Probe._enter", "probe.Probe._exit", "overlay.BaseOverlay.__enter__", "overlay.BaseOverlay.__exit__",
                "overlay.proceed.__enter__", "overlay.proceed.__exit__"]
SHARED_CLASSES = {"transform.StackedTransforms", "transform.SyncedStackedTransforms", "transform.TransformSet"}
FUNC_ATTRS = {"__code__", "__ptera_info__", "__ptera_token__", "__ptera_discard__", "__ptera_stack__", "_conformer", "__defaults__"}
MUTATORS = {"append", "extend", "insert", "add", "remove", "discard", "pop", "update", "clear", "setdefault", "popitem", "__setitem__"}

# per-symbol exemptions, one reason each
EXEMPT = {
    "module:transform._IDX": "itertools.count.__next__ is a single atomic C call in CPython",
    "module:overlay._selector_fit_cache": "memo of a pure function of (fn, selector): racing writers store the same value with one dict store",
    "module:probe.global_probes": "single set.add / set.remove per activation; only read by the atexit hook",
    "class:selector.InternedMC._cache": "a lost race only duplicates an equal selector object; handlers keep using the objects they hold",
    "module:tags._TagFactory._cache": "tags are created while parsing selectors / annotations, not by activate/call/deactivate",
}


def module_mutables(repo):
    """Module-level names bound to mutable containers / counters, and class-level dicts."""
    out = {}
    for m in repo.modules.values():
        for n in m.tree.body:
            if isinstance(n, ast.Assign) and len(n.targets) == 1 and isinstance(n.targets[0], ast.Name):
                v = n.value
                if isinstance(v, (ast.Dict, ast.List, ast.Set)) or (isinstance(v, ast.Call) and (dotted(v.func) or "") in
                                                                     ("set", "dict", "list", "count", "defaultdict", "Counter", "itertools.count")):
                    out[n.targets[0].id] = f"module:{m.name}.{n.targets[0].id}"
    return out


def lock_names(repo):
    out = set()
    for m in repo.modules.values():
        for n in m.tree.body:
            if isinstance(n, ast.Assign) and isinstance(n.value, ast.Call) and (dotted(n.value.func) or "").split(".")[-1] in ("Lock", "RLock"):
                for t in n.targets:
                    if isinstance(t, ast.Name):
                        out.add(t.id)
    return out


def locks_held_at(node, locks, fn_node):
    held = set()
    cur = getattr(node, "_parent", None)
    while cur is not None and cur is not fn_node:
        if isinstance(cur, (ast.With, ast.AsyncWith)):
            for it in cur.items:
                d = dotted(it.context_expr)
                if d and d.split(".")[-1] in locks:
                    held.add(d.split(".")[-1])
        cur = getattr(cur, "_parent", None)
    return held


def write_sites(repo, fi, mutables):
    """(state, node, kind) for every write to shared state in one function."""
    out = []
    glb_names = set()
    for n in walk_local(fi.node):
        if isinstance(n, ast.Assign) and isinstance(n.value, ast.Attribute) and n.value.attr == "__globals__":
            for t in n.targets:
                if isinstance(t, ast.Name):
                    glb_names.add(t.id)
    for n in walk_local(fi.node):
        targets = []
        if isinstance(n, ast.Assign):
            for t in n.targets:
                targets += list(t.elts) if isinstance(t, (ast.Tuple, ast.List)) else [t]
        elif isinstance(n, (ast.AugAssign, ast.AnnAssign)):
            targets = [n.target]
        elif isinstance(n, ast.Delete):
            targets = n.targets
        for t in targets:
            base = t
            while isinstance(base, ast.Subscript):
                base = base.value
            if isinstance(base, ast.Attribute):
                if is_name(base.value, "self") and fi.cls in SHARED_CLASSES and fi.node.name != "__init__":
                    out.append((f"field:{fi.cls.split('.')[1]}.{base.attr}", n, "store"))
                elif base.attr in FUNC_ATTRS and not is_name(base.value, "self"):
                    out.append((f"function-object:{base.attr}", n, "store"))
                elif base.attr == "__globals__":
                    out.append(("function-globals", n, "store"))
                elif isinstance(base.value, ast.Name) and base.value.id == "cls" and base.attr == "_cache":
                    out.append((f"class:{fi.cls}._cache" if fi.cls else "class:_cache", n, "store"))
                elif is_name(base.value, "self") and base.attr == "_cache" and fi.cls:
                    out.append((f"module:{fi.cls}._cache", n, "store"))
            elif isinstance(base, ast.Name):
                if base.id in mutables and isinstance(t, ast.Subscript):
                    out.append((mutables[base.id], n, "store"))
                elif base.id in glb_names and isinstance(t, ast.Subscript):
                    out.append(("function-globals", n, "store"))
        if isinstance(n, ast.Call) and isinstance(n.func, ast.Attribute):
            recv = n.func.value
            if n.func.attr in MUTATORS:
                if isinstance(recv, ast.Name) and recv.id in mutables:
                    out.append((mutables[recv.id], n, "mutate"))
                elif isinstance(recv, ast.Name) and recv.id in glb_names:
                    out.append(("function-globals", n, "mutate"))
                elif isinstance(recv, ast.Attribute) and is_name(recv.value, "self") and fi.cls in SHARED_CLASSES:
                    out.append((f"field:{fi.cls.split('.')[1]}.{recv.attr}", n, "mutate"))
        if isinstance(n, ast.Call) and is_name(n.func, "next") and n.args and isinstance(n.args[0], ast.Name) and n.args[0].id in mutables:
            out.append((mutables[n.args[0].id], n, "mutate"))
        if isinstance(n, ast.Call) and is_name(n.func, "exec") and len(n.args) >= 2 and isinstance(n.args[1], ast.Name) and n.args[1].id in glb_names:
            out.append(("function-globals", n, "exec"))
    return out


def lockset(repo, cg, entries, locks):
    """-> (reachable function quals, {qual: set of locks held on every path from an entry point})"""
    reach, stack = set(), list(entries)
    while stack:
        q = stack.pop()
        if q in reach:
            continue
        reach.add(q)
        for c, callees, ext, how in cg.edges[q]:
            stack.extend(callees)
        # nested functions run when their parent does (closures handed to traversals)
        for q2, f2 in repo.functions.items():
            if f2.parent is not None and f2.parent.qual == q:
                stack.append(q2)
    universe = set(locks)
    held = {q: (set() if q in entries else set(universe)) for q in reach}
    changed = True
    while changed:
        changed = False
        for q in reach:
            if q in entries:
                continue
            incoming = []
            for caller in reach:
                for c, callees, ext, how in cg.edges[caller]:
                    if q in callees:
                        incoming.append(held[caller] | locks_held_at(c, locks, repo.functions[caller].node))
            fi = repo.functions[q]
            if fi.parent is not None and fi.parent.qual in reach:
                # a nested function: also runs with whatever its definition site / its callers hold
                incoming.append(held[fi.parent.qual] | locks_held_at(fi.node, locks, fi.parent.node))
            new = set.intersection(*incoming) if incoming else set()
            if new != held[q]:
                held[q] = new
                changed = True
    return reach, held


def run(repo, chk):
    chk.explanation = (
        "Decides two structural clauses of C08. (R08.1) Everything that decides which handlers hear an event is reachable only through "
        "a contextvars.ContextVar: the current handler collection is a ContextVar written only through set/reset, published collections "
        "are never mutated in place (plus copies, the constructor copies), template accumulators are forked before use, and no other "
        "module-level container is written at run time. (R08.2) Lockset analysis over the resolved call graph from the property's "
        "operations (activate / call entry / deactivate): every write, read-modify-write or check-then-act on process-shared "
        "instrumentation state (per-function counters, variant cache, installed code/info/token, the function's globals during "
        "transform, creation of the per-function stack) happens with one common module-level lock held on every call path. A correct "
        "lock-free redesign would be flagged: the rule decides a sufficient discipline, not the schedule property itself; "
        "interleavings are not explored.")
    chk.not_decided += ["the behaviour under each interleaving (no schedule is explored)",
                        "the window in transform() where exec() rebinds the function's global name is covered only by mutual exclusion of writers, not against concurrent callers"]
    chk.assumptions += ["CPython: a single dict/set store and itertools.count.__next__ are atomic", "with <lock> regions are entered through threading.Lock/RLock objects bound at module level"]
    chk.rule("R08.1", "handler state is context-local: ContextVar written only via set/reset; published collections immutable; templates forked; no other module-level container written at run time", 6)
    chk.rule("R08.2", "every write to shared instrumentation state reachable from activate/call/deactivate holds one common lock on every call path", 5)

    cg = CallGraph(repo)
    ctxvars = contextvars_of(repo)
    mutables = module_mutables(repo)
    locks = lock_names(repo)
    chk.analysed["locks"] = sorted(locks)
    chk.analysed["module_level_mutables"] = sorted(mutables.values())

    # ---------------- R08.1
    hc = repo.cls("overlay.HandlerCollection")
    cur = [n for n in hc.body if isinstance(n, ast.Assign) and any(is_name(t, "current") for t in n.targets)]
    chk.ob("R08.1", "overlay.HandlerCollection.current:is-ContextVar", len(cur) == 1 and isinstance(cur[0].value, ast.Call)
           and (dotted(cur[0].value.func) or "").endswith("ContextVar"), f"ptera/overlay.py:{hc.lineno}", "the current handler collection lives in a ContextVar")
    bad = []
    for q, fi in repo.functions.items():
        for n in walk_local(fi.node):
            if isinstance(n, (ast.Assign, ast.AugAssign)):
                for t in (n.targets if isinstance(n, ast.Assign) else [n.target]):
                    if isinstance(t, ast.Attribute) and any(norm(t).endswith(cv) for cv in ctxvars):
                        bad.append(f"{q}: {norm(n)}")
    chk.ob("R08.1", "package:ContextVar-only-set/reset", not bad, "ptera/", f"the ContextVar object is never rebound {bad}")
    inplace = []
    for q, fi in repo.functions.items():
        for n in walk_local(fi.node):
            if isinstance(n, ast.Call) and isinstance(n.func, ast.Attribute) and n.func.attr in MUTATORS and norm(n.func.value).endswith(".handler_pairs"):
                inplace.append(f"{q}: {norm(n)}")
            if isinstance(n, ast.AugAssign) and norm(n.target).endswith(".handler_pairs"):
                inplace.append(f"{q}: {norm(n)}")
            if isinstance(n, ast.Assign) and any(norm(t).endswith(".handler_pairs") for t in n.targets) and fi.node.name != "__init__":
                inplace.append(f"{q}: {norm(n)}")
    chk.ob("R08.1", "package:handler_pairs-never-mutated", not inplace, "ptera/overlay.py", f"a published collection's pair list is never changed in place {inplace}")
    init = repo.func("overlay.HandlerCollection.__init__")
    chk.ob("R08.1", "overlay.HandlerCollection.__init__:copies", any(isinstance(n, ast.Assign) and norm(n.targets[0]) == "self.handler_pairs"
           and isinstance(n.value, ast.Call) and is_name(n.value.func, "list") for n in walk_local(init.node)), init.where, "a collection owns a private copy of its pair list")
    pl = repo.func("overlay.HandlerCollection.plus")
    rets = [r for r in walk_local(pl.node) if isinstance(r, ast.Return)]
    ok = len(rets) == 1 and isinstance(rets[0].value, ast.Call) and norm(rets[0].value.func) in ("type(self)", "HandlerCollection") \
        and not is_name(rets[0].value, "self")
    chk.ob("R08.1", "overlay.HandlerCollection.plus:returns-new-collection", ok, pl.where, "plus builds a new collection (the current one stays as other contexts see it)")
    # the installed variant follows every change of the shared counters (no "nothing changed" short cut on stale bookkeeping)
    from ..cfg import CFG as _CFG
    for m_ in ("push", "pop"):
        f_ = repo.func(f"transform.SyncedStackedTransforms.{m_}")
        g_ = _CFG(f_.node, lambda s_: False)
        sup_ = g_.find(lambda n: n.kind == "stmt" and f"super().{m_}(" in n.text())
        app_ = g_.find(lambda n: n.kind == "stmt" and "self._apply(" in n.text())
        ok_ = bool(sup_) and bool(app_) and all(not g_.path_exists(s_, g_.exit, avoid=app_, labels=("n", "t", "f")) for s_ in sup_)
        chk.ob("R08.1", f"transform.SyncedStackedTransforms.{m_}:variant-reinstalled-after-every-count-change", ok_, f_.where,
               f"every normal path of {m_}() from the counter update to the exit passes self._apply(...): which variant runs is recomputed from the counters each time, "
               "whatever other threads' probes did to them in between")
    from .shared import activation_integrity_obligations, plus_obligations
    activation_integrity_obligations(repo, chk, "R08.1", "the probes another thread holds on the same functions")
    plus_obligations(repo, chk, "R08.1", "the collection another thread or context is using is never changed or handed out twice")
    from .proceed_shape import proceed_shape
    P = proceed_shape(repo)
    pr = P.pr
    # a template (user-created) accumulator is never registered as such: on every fit it is forked first
    ok = len(P.forks) == 1 and len(P.regs) == 1 and any(f"{P.acc}.template" in c.split(" or ") for c in P.xconds(P.forks[0])) \
        and order(P.forks[0]) < order(P.regs[0]) and is_name(P.regs[0].args[0] if P.regs[0].args else None, P.acc) \
        and [c for c in P.xconds(P.forks[0]) if f"{P.acc}.template" not in c.split(" or ")] == P.xconds(P.regs[0])
    chk.ob("R08.1", "overlay.HandlerCollection.proceed:templates-forked", ok, pr.where,
           "user-created (template) accumulators are forked before anything is accumulated for a call")
    ok = len(P.itor_defs) == 1 and norm(P.itor_defs[0].value) == f"Interactor({P.fn})" and order(P.itor_defs[0]) < order(P.loop) \
        and P.inner is not None and len(P.inits) == 1 and order(P.inits[0]) < order(P.loop) and not P.others
    chk.ob("R08.1", "overlay.HandlerCollection.proceed:fresh-per-call", ok, pr.where, "every call gets its own Interactor and its own inner collection")
    # module-level containers written at run time must be in the exemption table
    seen_states = {}
    for q, fi in repo.functions.items():
        for state, node, kind in write_sites(repo, fi, mutables):
            if state.startswith(("module:", "class:")):
                seen_states.setdefault(state, []).append(q)
    for state, where in sorted(seen_states.items()):
        chk.ob("R08.1", f"{state}:exempt-or-absent", state in EXEMPT, "ptera/",
               f"module/class-level container `{state}` is written at run time in {sorted(set(where))}: " + (EXEMPT.get(state) or "NOT in the exemption table (process-global handler/instrumentation state?)"))

    # premise of the exemption of the selector-fit memo: only final results of fits_selector are ever stored in it
    stores = []
    for q, fi in repo.functions.items():
        for n in walk_local(fi.node):
            if isinstance(n, ast.Assign) and any(norm(t).startswith("_selector_fit_cache[") for t in n.targets):
                ok_ = False
                if isinstance(n.value, ast.Name):
                    defs = [a for a in walk_local(fi.node) if isinstance(a, ast.Assign) and any(is_name(t, n.value.id) for t in a.targets) and order(a) < order(n)]
                    ok_ = bool(defs) and isinstance(defs[-1].value, ast.Call) and norm(defs[-1].value.func) == "fits_selector" and q != "overlay.fits_selector"
                    # writing back the None that the lookup just returned ("not computed") publishes nothing: other threads still see a miss
                    if not ok_ and bool(defs) and isinstance(defs[-1].value, ast.Call) and norm(defs[-1].value.func) == "_selector_fit_cache.get" \
                            and f"{n.value.id} is None" in conds(n, fi.node):
                        ok_ = True
                stores.append((q, norm(n), ok_))
    chk.ob("R08.1", "module:overlay._selector_fit_cache:exemption-premise", all(o for _, _, o in stores), "ptera/overlay.py",
           "the memo is exempt from locking because every store writes the complete result of fits_selector for its key (racing writers store equal values): "
           + ("holds for " + str([s_ for _, s_, _ in stores]) if all(o for _, _, o in stores) else
              "VIOLATED by " + str([f"{q}: {s_}" for q, s_, o in stores if not o]) + " -- a provisional value is visible to other threads"))

    from .shared import variant_selection_obligations
    variant_selection_obligations(repo, chk, "R08.1")
    from .shared import registry_order_obligations
    registry_order_obligations(repo, chk, "R08.1", "a probe another thread creates by reference (/module/Class/method) while this one is active still resolves the function")
    from .shared import variant_symbol_obligations
    variant_symbol_obligations(repo, chk, "R08.1")
    # ---------------- R08.2
    for e in ENTRY_POINTS:
        repo.func(e)
    reach, held = lockset(repo, cg, ENTRY_POINTS, locks)
    chk.analysed["functions reachable from activate/call/deactivate"] = len(reach)
    by_state = {}
    for q in sorted(reach):
        fi = repo.functions[q]
        for state, node, kind in write_sites(repo, fi, mutables):
            if state in EXEMPT:
                continue
            h = held[q] | locks_held_at(node, locks, fi.node)
            by_state.setdefault(state, []).append((q, node, kind, h))
    # check-then-act: a store to shared state that is control-dependent on a test reading the same state (directly, or through a
    # local bound to such a read) -- the read and the test must hold the same lock as the store
    for q in sorted(reach):
        fi = repo.functions[q]
        for state, node, kind in write_sites(repo, fi, mutables):
            if state in EXEMPT or kind != "store":
                continue
            if ":" not in state:
                continue          # "function-globals": no single attribute to test
            attr = state.split(":", 1)[1].split(".")[-1]
            def mentions(e, names=()):
                for x in ast.walk(e):
                    if isinstance(x, ast.Attribute) and x.attr == attr:
                        return True
                    if isinstance(x, ast.Constant) and x.value == attr:
                        return True
                    if isinstance(x, ast.Name) and x.id in names:
                        return True
                return False
            derived = {}
            for a in walk_local(fi.node):
                if isinstance(a, ast.Assign) and len(a.targets) == 1 and isinstance(a.targets[0], ast.Name) and a is not node and mentions(a.value):
                    derived[a.targets[0].id] = a
            cur, child = getattr(node, "_parent", None), node
            while cur is not None and cur is not fi.node:
                if isinstance(cur, ast.If) and mentions(cur.test, set(derived)):
                    by_state.setdefault(state, []).append((q, cur.test, "check-then-act (test)", held[q] | locks_held_at(cur, locks, fi.node)))
                    for nm, a in derived.items():
                        if any(isinstance(x, ast.Name) and x.id == nm for x in ast.walk(cur.test)):
                            by_state.setdefault(state, []).append((q, a, "check-then-act (read)", held[q] | locks_held_at(a, locks, fi.node)))
                child, cur = cur, getattr(cur, "_parent", None)
    tl = repo.func("overlay._tooler")
    tf = repo.func("transform.TransformSet.transform_for")
    for n in walk_local(tf.node):
        if isinstance(n, ast.If) and "in self.transforms" in norm(n.test) and tf.qual in reach:
            by_state.setdefault("field:TransformSet.transforms", []).append((tf.qual, n, "check-then-act", held[tf.qual] | locks_held_at(n.body[0], locks, tf.node)))
    chk.count("shared states", len(by_state))
    for state, sites in sorted(by_state.items()):
        common = set.intersection(*[h for _, _, _, h in sites]) if sites else set()
        chk.count("write sites", len(sites))
        unprotected = sorted({f"{q}: {norm(node)[:70]} [{kind}]" for q, node, kind, h in sites if not h})
        chk.ob("R08.2", f"{state}:common-lock", bool(common), f"ptera/ ({len(sites)} site(s))",
               f"all {len(sites)} write site(s) of `{state}` reachable from activate/call/deactivate hold a common lock"
               + (f" ({sorted(common)})" if common else f" -- none held at: {unprotected[:4]}"),
               detail={"sites": [f"{q}: {norm(node)[:80]} [{kind}] locks={sorted(h)}" for q, node, kind, h in sites]})
    if len(by_state) < 4:
        raise AnalysisError(f"lockset: only {len(by_state)} shared states found reachable from the entry points (expected the counters, the variant cache, the installed code and the function globals)")

    # fixtures: lockset kernel alive
    src = "import threading\n_lock = threading.RLock()\nclass S:\n    def push(self):\n        self.n += 1\ndef locked(s):\n    with _lock:\n        s.push()\ndef unlocked(s):\n    s.push()\n"
    t = parse_fixture(src)
    withs = [n for n in ast.walk(t) if isinstance(n, ast.With)]
    call_locked = [c for c in ast.walk(withs[0]) if isinstance(c, ast.Call)][0]
    call_unlocked = [c for c in ast.walk(t.body[-1]) if isinstance(c, ast.Call)][0]
    chk.fixture("R08.2", "call inside `with _lock`", False, not locks_held_at(call_locked, {"_lock"}, t.body[-2]))
    chk.fixture("R08.2", "call outside any lock", True, not locks_held_at(call_unlocked, {"_lock"}, t.body[-1]))
