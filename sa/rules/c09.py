"""C09 - a suspended generator does not leak its call-path context: no suspension point inside a region in which
the handler ContextVar is modified and not restored."""
import ast

from ..astq import is_name
from ..callgraph import CallGraph
from ..core import AnalysisError, norm, walk_local
from ..pairing import contextvars_of
from ..xform import query as Q
from ..xform.terms import (Copy, GenericVisit, Ident, In, InList, Lib, Node, Raise, Rec, Star, SymStr, Visit, children, walk)
from .c05 import token_sites


def run(repo, chk):
    chk.explanation = (
        "Decides the one structural cause behind every history C09 quantifies over, by combining two static facts. (P) Typestate of the "
        "handler ContextVar: proceed.__enter__ replaces HandlerCollection.current with the collection for the callee and keeps the token on "
        "the proceed object; only proceed.__exit__ resets it. (T) From the output templates: the whole user body of an instrumented function "
        "is emitted inside `with proceed(self) as frame:` and visit_Yield keeps every user `yield` a real Yield inside that block, with no "
        "ptera-owned call around it that would restore the caller's collection on suspension and re-install the callee's on resumption. "
        "Hence a suspended generator leaves its own collection installed for the caller, and its token is reset out of order when generators "
        "finish non-LIFO (R09.1/R09.2). The bounded histories of next/close/drop are not explored: the structural cause covers them all.")
    chk.not_decided += ["the individual histories of {next, close, drop, call from the driver}: one structural cause is decided instead"]
    chk.assumptions += ["ContextVar semantics: a generator body runs in its caller's context (no context switch on next/send)"]
    chk.rule("R09.1", "no suspension inside a modified-ContextVar region: every Yield emitted inside `with proceed(...)` is bracketed by calls on ptera-owned objects that restore and re-install the collection, or the with context does not hold a ContextVar modification across its body", 3)
    chk.rule("R09.2", "the token taken at activation entry is only reset at activation exit (LIFO assumption) -- holds for plain calls, not for generators", 2)

    ctxvars = contextvars_of(repo)
    cls, H, stats = Q.templates(repo, chk.tier)
    chk.analysed["engine_T"] = stats
    # (P) proceed holds a ContextVar modification across its body
    sites = [(fi, call, st, tok) for fi, call, st, tok in token_sites(repo, ctxvars) if fi.qual == "overlay.proceed.__enter__"]
    en, ex = repo.func("overlay.proceed.__enter__"), repo.func("overlay.proceed.__exit__")
    holds = len(sites) == 1 and sites[0][3] is not None and sites[0][3].startswith("self.")
    chk.ob("R09.2", "overlay.proceed.__enter__:sets-current-and-keeps-token", holds, en.where,
           "entering an activation installs the callee's collection in the ContextVar and keeps the reset token on the proceed object")
    resets = [norm(c) for c in ast.walk(ex.node) if isinstance(c, ast.Call) and isinstance(c.func, ast.Attribute) and c.func.attr == "reset"]
    chk.ob("R09.2", "overlay.proceed.__exit__:only-reset-site", len(resets) == 1 and holds and sites[0][3] in resets[0], ex.where,
           "the token is reset only when the activation is left (no suspend/resume hook exists on proceed or the interactor)")
    from ..pairing import released_on_all_normal_paths
    cv = sorted(ctxvars)[0]
    ok_all, path, nrel = released_on_all_normal_paths(ex, f"ctxvar:{[c for c in ctxvars if 'current' in c][0] if any('current' in c for c in ctxvars) else cv}", ctxvars)
    chk.ob("R09.2", "overlay.proceed.__exit__:reset-on-every-way-out", ok_all, ex.where,
           "the token is reset on every path through __exit__, whatever ended the activation (return, exception, GeneratorExit on close/drop)"
           + ("" if ok_all else f" -- a path leaves __exit__ without resetting: {' -> '.join(path or [])}"))
    from .proceed_shape import proceed_shape
    P = proceed_shape(repo)
    ok = len(P.pushes) == 1 and len(P.child_loops) == 1 and norm(P.pushes[0].args[0]) == f"({P.child_loops[0].target.id}, {P.acc})" and len(P.keeps) == 1 \
        and norm(P.keeps[0].args[0]) == f"({P.sel}, {P.acc})"
    chk.ob("R09.2", "overlay.HandlerCollection.proceed:inner-collection-holds-the-selectors-unchanged", ok, P.pr.where,
           "the collection installed for an activation holds the caller's pending selectors and the matched level's children as they are (no altered copies): an instrumented generator that is entered while "
           "suspended callers exist installs a collection with the same content for them, so advancing, closing or dropping it does not change which of the driver's calls match")
    from ..pairing import raising_before_release
    from ..callgraph import CallGraph
    early = raising_before_release(ex, f"ctxvar:{[c for c in ctxvars if 'current' in c][0]}", ctxvars, CallGraph(repo))
    chk.ob("R09.2", "overlay.proceed.__exit__:nothing-may-raise-before-the-reset", not early, ex.where,
           "when a generator's activation ends (exhausted, closed or dropped), the caller's context is restored before the close handlers run: a raising handler cannot leave the generator's collection current"
           + (f" -- may raise first: {early}" if early else ""))
    from .c05 import guard_of, released_under_guard
    oen, oex = repo.func("overlay.BaseOverlay.__enter__"), repo.func("overlay.BaseOverlay.__exit__")
    g1, g2 = guard_of(oen.node, "set", ctxvars), guard_of(oex.node, "reset", ctxvars)
    okr, pathr, nrel = released_under_guard(oex, f"ctxvar:{[c for c in ctxvars if 'current' in c][0]}", ctxvars, g1)
    chk.ob("R09.2", "overlay.BaseOverlay.__exit__:always-restores-what-__enter__-installed", okr and g1 is not None and g1 == g2, oex.where,
           f"leaving an overlay's with-block restores the previous collection whenever entering it installed one (guards `{g1}` / `{g2}`), whatever is current at that moment: "
           "a suspended generator started inside the block must not keep the ended overlay's handlers installed")
    other = [q for q, fi in repo.functions.items() if fi.cls in ("overlay.proceed", "interpret.Interactor") and fi.node.name in ("suspend", "resume", "pause", "restore", "on_yield", "on_resume")]
    chk.analysed["suspend_resume_hooks"] = other

    # (T) yields inside the with block
    roots = [p for p in H.get("visit_FunctionDef", []) if not isinstance(p.template, Raise)]
    inside = []
    for p in roots:
        for x in walk(p.template):
            if isinstance(x, Node) and x.cls == "With":
                ce = (x.fields.get("items") or [None])[0]
                ce = ce.fields.get("context_expr") if isinstance(ce, Node) else None
                if isinstance(ce, Node) and ce.cls == "Call" and Q.is_lib_name(ce.fields.get("func"), "proceed"):
                    inside.append(any(isinstance(y, Visit) and isinstance(y.x, In) and y.x.path.startswith("node.body") for y in walk(x.fields.get("body"))))
    chk.ob("R09.1", "visit_FunctionDef:user-body-inside-with-proceed", bool(inside) and all(inside), "ptera/transform.py (visit_FunctionDef)",
           "the user's statements (hence every yield they contain) are emitted inside `with proceed(self) as frame:`")
    ypaths = [p for p in H.get("visit_Yield", []) if not isinstance(p.template, Raise)]
    real_yield = bool(ypaths) and all(any(isinstance(x, Node) and x.cls == "Yield" for x in walk(p.template)) for p in ypaths)
    chk.ob("R09.1", "visit_Yield:stays-a-suspension-point", real_yield, "ptera/transform.py (visit_Yield)", "a user `yield` is still a yield in the emitted code (the frame suspends there)")
    # bracketing: a call on frame *around* the Yield node that is something else than interact (which only reports)
    bracketed = []
    for p in ypaths:
        calls_around = []
        def rec(t, stack):
            if isinstance(t, Node) and t.cls == "Yield":
                calls_around.append([c for c in stack if isinstance(c, Node) and c.cls == "Call"])
            for c in children(t):
                rec(c, stack + [t])
        rec(p.template, [])
        for cs in calls_around:
            non_interact = [c for c in cs if not Q.is_interact(c)]
            bracketed.append(bool(non_interact))
    suspended_clean = bool(bracketed) and all(bracketed) and bool(other)
    chk.ob("R09.1", "generated-code:yield-inside-with-proceed-without-suspend/resume", suspended_clean or not (holds and all(inside) and real_yield),
           "ptera/transform.py (visit_FunctionDef, visit_Yield) + ptera/overlay.py (proceed)",
           "a generator suspended at a yield keeps the ContextVar set to its own handler collection: code run by the driver between two next() calls is matched "
           "as if it ran inside the generator, and closing generators out of order (or after their overlay ended) resets stale tokens and re-installs dead handlers")
    from .shared import token_only_restore_obligations
    token_only_restore_obligations(repo, chk, "R09.2", "finishing a generator from another context than the one it started in never installs the collection remembered from the starting context")
    from .shared import contextmanager_release_obligations
    contextmanager_release_obligations(repo, chk, "R09.2", "a block that is left because a generator was exhausted (StopIteration) or had an exception thrown into it does not leave the overlay's handlers installed for the driver")
    from .shared import keep_pending_obligations
    keep_pending_obligations(repo, chk, "R09.2", "the collection a suspended generator leaves current for its driver still holds every pending selector, so a second instance started meanwhile matches as the first did")
    from .shared import plus_obligations
    plus_obligations(repo, chk, "R09.2", "a collection that was built while a suspended generator's context was current is never installed again for the driver")
