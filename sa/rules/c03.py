"""C03 - call-path selectors: the structural clauses only (pending selectors kept unless immediate, children pushed
only on fit and paired with this embedding's accumulator, static fit rule, swap/restore of the collection).
The number of embeddings for a given call tree is NOT decided."""
import ast

from ..astq import is_name, kwarg, returns_of
from ..core import AnalysisError, norm, walk_local
from ..pairing import contextvars_of
from .c05 import token_sites
from .c07 import guards


def run(repo, chk):
    chk.explanation = (
        "C03 as a whole is a relation between arbitrary dynamic call trees and selector trees and is not decidable statically; decided here "
        "are the structural necessary conditions of the matching step performed at every function entry (HandlerCollection.proceed), each of "
        "which changes which events fire when it fails: (R03.1) a pending selector is carried into the callee unless it is immediate, whether "
        "or not it fits the callee ('any number of other calls in between', and f > x also matching under f > f > x); (R03.2) the children of a "
        "selector level are pushed only when the level fits the function being entered, paired with the accumulator of this very embedding, "
        "which is forked when the level holds the focus or is the user's template; (R03.3) the static fit rule: function element first, every "
        "named capture present in the function's variable table (meta variables exempt), every generic capture matching at least one "
        "variable; the memo distinguishes 'not computed' from 'does not fit'; (R03.4) entering an activation installs the callee's collection "
        "and leaving restores the caller's (same token). Counting embeddings and attributing context values for a concrete call tree is not decided.")
    chk.not_decided += ["the number of embeddings of a selector chain in a concrete call stack and the attribution of sibling values (runtime)"]
    chk.assumptions += ["selectors are interned (C15), so (fn, selector) is a sound memo key"]
    chk.rule("R03.1", "pending selectors are kept unless immediate, independently of the fit", 2)
    chk.rule("R03.2", "children are pushed only on fit, paired with this embedding's accumulator, forked on focus/template", 4)
    chk.rule("R03.3", "static fit: function element, named captures in the variable table (meta exempt), generic captures match at least one variable; memo keyed by (fn, selector) with None/False distinguished", 6)
    chk.rule("R03.4", "activation entry installs the callee's collection, exit restores the caller's with the same token", 2)

    pr = repo.func("overlay.HandlerCollection.proceed")
    loops = [n for n in walk_local(pr.node) if isinstance(n, ast.For) and norm(n.iter) == "self.handler_pairs"]
    if len(loops) != 1:
        raise AnalysisError("overlay.HandlerCollection.proceed: loop over self.handler_pairs not found")
    loop = loops[0]
    # ---------------- R03.1
    keeps = [c for c in ast.walk(loop) if isinstance(c, ast.Call) and norm(c.func) == "next_selectors.append"]
    ok = len(keeps) == 1 and guards(keeps[0], loop) == ["not selector.immediate"] and norm(keeps[0].args[0]) == "(selector, acc)"
    chk.ob("R03.1", "overlay.HandlerCollection.proceed:keep-unless-immediate", ok, pr.where,
           f"every non-immediate selector is carried into the callee unchanged, with its accumulator (guards: {guards(keeps[0], loop) if keeps else 'no append'})")
    fit_tests = [n for n in ast.walk(loop) if isinstance(n, ast.If) and norm(n.test) == "capmap is not False"]
    ok = len(fit_tests) == 1 and bool(keeps) and keeps[0].lineno < fit_tests[0].lineno
    chk.ob("R03.1", "overlay.HandlerCollection.proceed:kept-before-and-regardless-of-fit", ok, pr.where, "the selector is kept before, and independently of, the test whether it fits this function")
    # ---------------- R03.2
    if len(fit_tests) == 1:
        ft = fit_tests[0]
        exts = [c for c in ast.walk(loop) if isinstance(c, ast.Call) and norm(c.func) == "next_selectors.extend"]
        ok = len(exts) == 1 and any(exts[0] is x for s in ft.body for x in ast.walk(s))
        chk.ob("R03.2", "overlay.HandlerCollection.proceed:children-only-on-fit", ok, pr.where, "the children of a selector level are pushed only when the level fits the function being entered")
        ok = len(exts) == 1 and isinstance(exts[0].args[0], ast.GeneratorExp) and norm(exts[0].args[0].elt) == "(child, acc)" and norm(exts[0].args[0].generators[0].iter) == "selector.children"
        chk.ob("R03.2", "overlay.HandlerCollection.proceed:children-paired-with-acc", ok, pr.where, "each child selector is paired with the accumulator of this embedding")
        forks = [n for n in ast.walk(ft) if isinstance(n, ast.Assign) and norm(n) == "acc = acc.fork()"]
        ok = len(forks) == 1 and guards(forks[0], ft) == ["selector.focus or is_template"] and bool(exts) and forks[0].lineno < exts[0].lineno
        chk.ob("R03.2", "overlay.HandlerCollection.proceed:fork-on-focus-or-template", ok, pr.where,
               "the accumulator is forked (before it is registered and before the children are pushed) when the level holds the focus or is the user's template: each embedding keeps its own focus captures")
        regs = [c for c in ast.walk(ft) if isinstance(c, ast.Call) and norm(c.func) == "itor.register"]
        ok = len(regs) == 1 and [norm(a) for a in regs[0].args[:2]] == ["acc", "capmap"] and bool(forks) and forks[0].lineno < regs[0].lineno
        chk.ob("R03.2", "overlay.HandlerCollection.proceed:register-forked-acc-with-capmap", ok, pr.where, "the (forked) accumulator is registered in this call's interactor for exactly the variables of the fit")
    r = returns_of(pr.node)
    ok = len(r) == 1 and norm(r[0].value) == "(itor, rval)" and any(isinstance(n, ast.Assign) and norm(n) == "rval = HandlerCollection(next_selectors)" for n in walk_local(pr.node))
    chk.ob("R03.2", "overlay.HandlerCollection.proceed:returns-inner-collection", ok, pr.where, "the collection for the callee's body is exactly the kept selectors plus the pushed children")
    # ---------------- R03.3
    memo_get = [n for n in ast.walk(loop) if isinstance(n, ast.Assign) and norm(n) == "capmap = _selector_fit_cache.get(cachekey)"]
    key = [n for n in ast.walk(loop) if isinstance(n, ast.Assign) and norm(n) == "cachekey = (fn, selector)"]
    miss = [n for n in ast.walk(loop) if isinstance(n, ast.If) and norm(n.test) == "capmap is None"]
    ok = bool(memo_get) and bool(key) and len(miss) == 1 and "capmap = fits_selector(fn, selector)" in " ".join(norm(s) for s in miss[0].body)
    stores = [n for n in ast.walk(loop) if isinstance(n, ast.Assign) and norm(n.targets[0]).startswith("_selector_fit_cache[")]
    ok = ok and all(norm(n) == "_selector_fit_cache[cachekey] = capmap" and any(n is x for b in miss[0].body for x in ast.walk(b)) for n in stores)
    chk.ob("R03.3", "overlay.HandlerCollection.proceed:memo", ok, pr.where,
           "the fit is looked up per (function, selector); a miss (None) is computed by fits_selector (and, if stored, stored under the same key), False means 'does not fit'")
    fs = repo.func("overlay.fits_selector")
    body = fs.node.body
    first_if = next((n for n in body if isinstance(n, ast.If)), None)
    ok = first_if is not None and norm(first_if.test) == "not check_element(selector.element, fname, fcat)" and isinstance(first_if.body[0], ast.Return) \
        and isinstance(first_if.body[0].value, ast.Constant) and first_if.body[0].value.value is False
    chk.ob("R03.3", "overlay.fits_selector:function-element-first", ok, fs.where, "a level does not fit a function whose identity / return tag does not match the level's function element")
    t = norm(fs.node)
    named = [n for n in ast.walk(fs.node) if isinstance(n, ast.If) and "not in fvars" in norm(n.test)]
    ok = len(named) == 1 and isinstance(named[0].body[0], ast.Return) and norm(named[0].body[0].value) == "False" and "name = cap.name.split('.')[0]" in t
    chk.ob("R03.3", "overlay.fits_selector:named-capture-must-exist", ok, fs.where, "a named capture must be in the function's variable table (by its base name)")
    gen = [n for n in ast.walk(fs.node) if isinstance(n, ast.If) and norm(n.test) == "not varnames"]
    ok = len(gen) == 1 and norm(gen[0].body[0].value) == "False" and "if check_element(cap, var, info['annotation'])" in t
    chk.ob("R03.3", "overlay.fits_selector:generic-capture-needs-a-match", ok, fs.where, "a generic capture must match at least one variable of the function")
    r = returns_of(fs.node)
    ok = norm(r[-1].value) == "capmap" and all(norm(x.value) in ("False", "capmap") for x in r) and "capmap[cap] = varnames" in t and "capmap[cap] = [cap.name]" in t
    chk.ob("R03.3", "overlay.fits_selector:returns-capture-map", ok, fs.where, "a fitting level returns {capture: matching variable names}; only mismatches return False")
    loops2 = [n for n in walk_local(fs.node) if isinstance(n, ast.For) and norm(n.iter) == "selector.captures"]
    chk.ob("R03.3", "overlay.fits_selector:every-capture-checked", len(loops2) == 1, fs.where, "every capture of the level is checked")
    # ---------------- R03.4
    ctxvars = contextvars_of(repo)
    en, ex = repo.func("overlay.proceed.__enter__"), repo.func("overlay.proceed.__exit__")
    sites = [(fi, call, st, tok) for fi, call, st, tok in token_sites(repo, ctxvars) if fi.qual == en.qual]
    ok = len(sites) == 1 and norm(sites[0][1].args[0]) == "new" and any(isinstance(n, ast.Assign) and "self.curr.proceed(self.fn)" in norm(n.value) and
                                                                          any(norm(e) == "new" for t_ in n.targets for e in (t_.elts if isinstance(t_, ast.Tuple) else [t_])) for n in walk_local(en.node))
    chk.ob("R03.4", "overlay.proceed.__enter__:installs-callee-collection", ok, en.where, "entering an activation installs the collection computed by proceed() for this function")
    tok = sites[0][3] if sites else None
    resets = [norm(c.args[0]) for c in ast.walk(ex.node) if isinstance(c, ast.Call) and isinstance(c.func, ast.Attribute) and c.func.attr == "reset" and c.args]
    chk.ob("R03.4", "overlay.proceed.__exit__:restores-with-same-token", tok is not None and resets == [tok], ex.where, "leaving the activation restores the caller's collection with the token taken at entry")
    cur = [n for n in walk_local(en.node) if isinstance(n, ast.Assign) and norm(n.targets[0]) == "self.curr"]
    chk.ob("R03.4", "overlay.proceed.__enter__:starts-from-current-collection", len(cur) == 1 and "HandlerCollection.current.get()" in norm(cur[0].value), en.where,
           "matching continues from the collection that is current in the caller")
