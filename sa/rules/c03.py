"""C03 - call-path selectors: the structural clauses only (pending selectors kept unless immediate, children pushed
only on fit and paired with this embedding's accumulator, static fit rule, swap/restore of the collection).
The number of embeddings for a given call tree is NOT decided."""
import ast

from ..astq import conds, ends_in_jump, expand, facts_of, is_name, kwarg, returns_of, single_defs
from ..core import AnalysisError, norm, order, walk_local
from ..pairing import contextvars_of
from .c05 import token_sites
from .proceed_shape import proceed_shape


def run(repo, chk):
    chk.explanation = (
        "C03 as a whole is a relation between arbitrary dynamic call trees and selector trees and is not decidable statically; decided here "
        "are the structural necessary conditions of the matching step performed at every function entry (HandlerCollection.proceed), each of "
        "which changes which events fire when it fails: (R03.1) a pending selector is carried into the callee unless it is immediate, whether "
        "or not it fits the callee ('any number of other calls in between', and f > x also matching under f > f > x); (R03.2) the children of a "
        "selector level are pushed only when the level fits the function being entered, paired with the accumulator of this very embedding, "
        "which is forked when the level holds the focus or is the user's template; (R03.3) the static fit rule: function element first, every "
        "named capture present in the function's variable table (meta variables exempt), every generic capture matching at least one "
        "variable; the memo distinguishes 'not computed' from 'does not fit'; (R03.4) entering an activation installs the callee's collection "
        "and leaving restores the caller's (same token). Counting embeddings and attributing context values for a concrete call tree is not decided.")
    chk.not_decided += ["the number of embeddings of a selector chain in a concrete call stack and the attribution of sibling values (runtime)"]
    chk.assumptions += ["selectors are interned (C15), so (fn, selector) is a sound memo key"]
    chk.rule("R03.1", "pending selectors are kept unless immediate, independently of the fit", 2)
    chk.rule("R03.2", "children are pushed only on fit, paired with this embedding's accumulator, forked on focus/template", 4)
    chk.rule("R03.3", "static fit: function element, named captures in the variable table (meta exempt), generic captures match at least one variable; memo keyed by (fn, selector) with None/False distinguished", 6)
    chk.rule("R03.4", "activation entry installs the callee's collection, exit restores the caller's with the same token", 2)

    P = proceed_shape(repo)
    pr, loop, sel, acc, inner, fitvar, fit_lit, keeps, pushes, child_loops, others, r = P.pr, P.loop, P.sel, P.acc, P.inner, P.fitvar, P.fit_lit, P.keeps, P.pushes, P.child_loops, P.others, P.ret
    # ---------------- R03.1
    ok = inner is not None and len(keeps) == 1 and conds(keeps[0], loop) == [f"not {sel}.immediate"]
    chk.ob("R03.1", "overlay.HandlerCollection.proceed:keep-unless-immediate", ok, pr.where,
           f"every non-immediate selector is carried into the callee unchanged, with its accumulator (conditions: {conds(keeps[0], loop) if keeps else 'no append'})")
    ok = bool(keeps) and bool(pushes) and fit_lit not in conds(keeps[0], loop) and order(keeps[0]) < min(order(c) for c in pushes)
    chk.ob("R03.1", "overlay.HandlerCollection.proceed:kept-before-and-regardless-of-fit", ok, pr.where, "the selector is kept before its children are pushed, and independently of the test whether it fits this function")
    # ---------------- R03.2
    ok = fitvar is not None and len(pushes) == 1 and conds(pushes[0], loop) == [fit_lit] and not others
    chk.ob("R03.2", "overlay.HandlerCollection.proceed:children-only-on-fit", ok, pr.where,
           f"the children of a selector level are pushed exactly when the level fits the function being entered (conditions: {conds(pushes[0], loop) if pushes else 'no push'}; other writers of the list: {len(others)})")
    ok = len(pushes) == 1 and len(child_loops) == 1 and norm(pushes[0].args[0]) == f"({child_loops[0].target.id}, {acc})" and conds(pushes[0], child_loops[0]) == []
    chk.ob("R03.2", "overlay.HandlerCollection.proceed:children-paired-with-acc", ok, pr.where, "each child selector (every one of them) is paired with the accumulator of this embedding")
    forks, fork_conds = P.forks, P.xconds
    ok = len(forks) == 1 and bool(pushes) and fork_conds(forks[0]) == [fit_lit, f"{acc}.template or {sel}.focus"] and order(forks[0]) < order(pushes[0])
    chk.ob("R03.2", "overlay.HandlerCollection.proceed:fork-on-focus-or-template", ok, pr.where,
           "the accumulator is forked (before it is registered and before the children are pushed) when the level holds the focus or is the user's template: each embedding keeps its own focus captures"
           + (f" (conditions: {fork_conds(forks[0])})" if forks else ""))
    regs = P.regs
    ok = len(regs) == 1 and [norm(a) for a in regs[0].args[:2]] == [acc, str(fitvar)] and conds(regs[0], loop) == [fit_lit] and bool(forks) and order(forks[0]) < order(regs[0])
    chk.ob("R03.2", "overlay.HandlerCollection.proceed:register-forked-acc-with-capmap", ok, pr.where, "the (forked) accumulator is registered in this call's interactor for exactly the variables of the fit")
    ok = inner is not None and len(P.inits) == 1 and order(P.inits[0]) < order(loop) and P.itor is not None
    chk.ob("R03.2", "overlay.HandlerCollection.proceed:returns-inner-collection", ok, pr.where, "the collection for the callee's body is exactly the kept selectors plus the pushed children")
    # ---------------- R03.3
    ok = P.memo.ok
    # (a store placed before the computation writes the None it just read: the same as no store -- every later lookup is a miss)
    chk.ob("R03.3", "overlay.HandlerCollection.proceed:memo", ok, pr.where,
           "the fit is looked up per (function, selector); a miss is computed by fits_selector (and, if stored, stored under the same key), False means 'does not fit': " + P.memo.why)
    fs = repo.func("overlay.fits_selector")
    ff = facts_of(fs)
    pfn, selp = (a_.arg for a_ in fs.node.args.args[:2])
    elt = f"check_element({selp}.element, {pfn}, {pfn}.__annotations__.get('return'))"
    rets = [(t, set(c), n) for t, c, n in ff.items if isinstance(n, ast.Return)]
    falses = [c for t, c, n in rets if t == "return False"]
    ok = any(c == {f"not {elt}"} or (f"not {elt}" in c and len([x for x in c if x.startswith("not check_element(")]) == len(c)) for c in falses) \
        and all(elt in c for t, c, n in rets if t != "return False") and all(elt in set(c) for t, c, n in ff.items if isinstance(n, ast.For))
    chk.ob("R03.3", "overlay.fits_selector:function-element-first", ok, fs.where, "a level does not fit a function whose identity / return tag does not match the level's function element")
    table = (ff.bound_to(f"{pfn}.__ptera_info__") or [f"{pfn}.__ptera_info__"])[0]
    base = (ff.bound_to("cap.name.split('.')[0]") or ["cap.name.split('.')[0]"])[0]
    want = {"cap.name is not None", "not cap.name.startswith('#')"}
    ok = any(want <= c and ({f"{base} not in {table}"} & c or {f"cap.name.split('.')[0] not in {table}"} & c) for c in falses)
    chk.ob("R03.3", "overlay.fits_selector:named-capture-must-exist", ok, fs.where, "a named capture must be in the function's variable table (by its base name)")
    gen = ff.bound_to(f"[var for var, info in {table}.items() if check_element(cap, var, info['annotation'])]")
    ok = len(gen) == 1 and any({"cap.name is None", f"not {gen[0]}"} <= c for c in falses)
    chk.ob("R03.3", "overlay.fits_selector:generic-capture-needs-a-match", ok, fs.where, "a generic capture must match at least one variable of the function")
    maps = [t[len("return "):] for t, c, n in rets if t != "return False"]
    mv = maps[0] if maps else "<capture map>"
    ok = len(set(maps)) == 1 and len(falses) == 3 and len(gen) == 1 and ff.has(f"{mv}[cap] = {gen[0]}", when=["cap.name is None", gen[0]]) \
        and ff.has(f"{mv}[cap] = [cap.name]", when=["cap.name is not None"]) and ff.has(f"{mv} = {{}}") and ends_in_jump(fs.node.body)
    chk.ob("R03.3", "overlay.fits_selector:returns-capture-map", ok, fs.where, "a fitting level returns {capture: matching variable names}; only mismatches return False")
    loops2 = [n for n in walk_local(fs.node) if isinstance(n, ast.For) and norm(n.iter) == f"{selp}.captures" and is_name(n.target, "cap")]
    chk.ob("R03.3", "overlay.fits_selector:every-capture-checked", len(loops2) == 1, fs.where, "every capture of the level is checked")
    # ---------------- R03.4
    ctxvars = contextvars_of(repo)
    en, ex = repo.func("overlay.proceed.__enter__"), repo.func("overlay.proceed.__exit__")
    sites = [(fi, call, st, tok) for fi, call, st, tok in token_sites(repo, ctxvars) if fi.qual == en.qual]
    ok = len(sites) == 1 and norm(sites[0][1].args[0]) == "new" and any(isinstance(n, ast.Assign) and expand(n.value, en.node) == "self.curr.proceed(self.fn)" and
                                                                          any(norm(e) == "new" for t_ in n.targets for e in (t_.elts if isinstance(t_, ast.Tuple) else [t_])) for n in walk_local(en.node))
    chk.ob("R03.4", "overlay.proceed.__enter__:installs-callee-collection", ok, en.where, "entering an activation installs the collection computed by proceed() for this function")
    tok = sites[0][3] if sites else None
    resets = [norm(c.args[0]) for c in ast.walk(ex.node) if isinstance(c, ast.Call) and isinstance(c.func, ast.Attribute) and c.func.attr == "reset" and c.args]
    chk.ob("R03.4", "overlay.proceed.__exit__:restores-with-same-token", tok is not None and resets == [tok], ex.where, "leaving the activation restores the caller's collection with the token taken at entry")
    cur = [n for n in walk_local(en.node) if isinstance(n, ast.Assign) and norm(n.targets[0]) == "self.curr"]
    chk.ob("R03.4", "overlay.proceed.__enter__:starts-from-current-collection", len(cur) == 1 and "HandlerCollection.current.get()" in norm(cur[0].value), en.where,
           "matching continues from the collection that is current in the caller")
    from .shared import call_exit_order_obligations
    call_exit_order_obligations(repo, chk, "R03.4", "a close handler that raises cannot leave the ended activation's half-advanced child selectors installed (they would match calls that have no such caller on the stack)")
    from .shared import activation_integrity_obligations
    activation_integrity_obligations(repo, chk, "R03.4", "probes on a call path")
    from .shared import unfresh_local_mutations
    n_sites, leaks = unfresh_local_mutations(repo, ("interpret.", "overlay."))
    if n_sites < 5:
        raise AnalysisError(f"only {n_sites} in-place changes of locals found in interpret.py / overlay.py (confirmed by hand: 7)")
    chk.ob("R03.2", "interpret+overlay:containers-changed-in-place-are-created-on-the-spot", not leaks, "ptera/interpret.py, ptera/overlay.py",
           f"every local container that is changed in place in the accumulator / matching code ({n_sites} sites: the record built by build(), the next collection of proceed(), "
           f"the capture map of fits_selector, the rollback journal) is created where it is filled, never a table obtained from another accumulator or activation "
           f"(build() hands out the live table of a root accumulator)" + (f": {leaks}" if leaks else ""))
    from .shared import build_precedence_obligations
    build_precedence_obligations(repo, chk, "R03.2", "context values come from the matched outer activation, not from a same-named variable deeper down")
    from .shared import fork_obligations
    fork_obligations(repo, chk, "R03.2", "each way the path matches keeps its own focus captures")
    from .shared import call_extension_obligations
    call_extension_obligations(repo, chk, "R03.3")
