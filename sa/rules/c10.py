"""C10 - every name a function binds or reads is selectable, absent names are refused: collector coverage and scope
boundaries against Python's own binding rules (oracle: ast ASDL + symtable), provenance algebra, refusal path."""
import ast

from ..astq import _inner_function, conds, expand, facts_of, is_name, returns_of
from ..callgraph import CallGraph
from ..cfg import CFG
from ..core import AnalysisError, norm, order, walk_local
from .. import pybinding
from ..evc import Collector
from ..xform.terms import ASDL

TRAVERSAL_EXEMPT = {
    ("arg", "annotation"): "parameter annotations are evaluated in the enclosing scope when the def statement runs",
    ("arg", "type_comment"): "not code",
}


def run(repo, chk):
    chk.explanation = (
        "Decides agreement between ptera's hand-written name collector and Python's scoping for every syntactic placement of a binding: "
        "the Python binding table (one row per construct that binds, or deliberately does not bind, a name in the enclosing function) is "
        "validated on every run against the ASDL of the running ast module and against symtable on a three-line snippet per row; the collector's "
        "effect table (which handler adds which identifier to used/assigned/provenance, which child fields it traverses) is read from its source; "
        "each row is then decided: bound-in-function rows must be recorded with the provenance Python implies, nested-scope rows must not be. "
        "Also decided: the provenance algebra (external = used - assigned - free, closure names from co_freevars, meta table merged last) and the "
        "refusal path (verify is reached before the probe counts as activated, raises SelectorError iff problems() is non-empty, problems() covers "
        "every documented refusal, non-functions are refused with TypeError). Which names a concrete program has is not needed: the verdict is per construct.")
    chk.not_decided += ["whether a given selector string resolves (C18)", "that an accepted name actually fires (C02)"]
    chk.assumptions += ["symtable of this interpreter is the scoping oracle (incl. PEP 709 inlined comprehensions on 3.12)"]
    chk.rule("R10.1", "binder coverage: every construct that binds a name in the function scope is recorded by the collector in `assigned` with the provenance Python's scoping implies", 18)
    chk.rule("R10.2", "traversal completeness: a custom collector handler traverses every child field that can contain a binding or a load", 4)
    chk.rule("R10.3", "scope boundaries: bindings that belong to a nested scope (or are declared global/nonlocal) are not attributed to the function as body locals", 6)
    chk.rule("R10.4", "provenance algebra: external = used - assigned - free; closure names from co_freevars; info over used|assigned with the meta table merged last", 6)
    chk.rule("R10.5", "the refusal path is reached and complete: verify before activation counts, SelectorError iff problems, problems() covers every documented refusal, TypeError for non-functions", 9)

    n_valid = pybinding.validate()
    chk.analysed["binding_rows_validated_against_symtable"] = n_valid
    col = Collector(repo)
    chk.analysed["collector_class"] = col.cls.name
    chk.analysed["collector_handlers"] = sorted(col.handlers)

    # ---------------- R10.1 / R10.3
    for row in pybinding.ROWS:
        rid, how, cls, body, local, prov = row
        local = pybinding.ORACLE[rid]
        v = col.verdict(row)
        where = f"ptera/transform.py ({col.cls.name})"
        if rid in ("delete",):
            continue
        if rid == "global-decl":
            # the assignment `v = 1` under `global v`
            row2 = ("global-decl", "Name(Store)", "Assign", body, False, None)
            v = col.verdict(row2)
        if rid == "nonlocal-decl":
            continue     # a function with `nonlocal` cannot be instrumented at all today (C01 R01.6): its variable table is never built
        if local:
            ok = v["recorded"] and (prov is None or v["provenance"] == prov)
            why = ""
            if not v["recorded"]:
                why = f" -- not recorded ({v['blocked_by'] or ('no collector handler for ' + v['class'] if not v['handler'] else v['handler'] + ' does not add it to `assigned`')}): " \
                      f"`f > {'v'}` is refused although Python binds the name in f"
            elif prov and v["provenance"] != prov:
                why = f" -- recorded with provenance {v['provenance']!r}, Python's scoping implies {prov!r}"
            chk.ob("R10.1", f"{rid}:recorded-as-{prov or 'local'}", ok, where,
                   f"{rid} ({how} of {cls}; `{(body or 'def f(v)').splitlines()[-1].strip()}`): bound in the function scope" + (f", recorded via {v['via']}" if ok else why))
        else:
            ok = not v["recorded"]
            chk.ob("R10.3", f"{rid}:not-attributed-to-function", ok, where,
                   f"{rid} (`{(body or 'nonlocal v').splitlines()[-1].strip()}`): the name does not belong to f's own scope" +
                   ("" if ok else f" -- but the collector records it as a local of f (via {v['via']}, provenance {v['provenance']!r}): `f > v` is accepted and can never fire / gets the wrong provenance"))
    # ---------------- R10.2
    for hname, h in sorted(col.handlers.items()):
        cls = hname[len("visit_"):]
        adds, provs, tall, tf = col.effective(h)
        for f, t, q in ASDL.get(cls, []):
            if t in ("identifier", "string", "int", "constant", "expr_context", "operator", "boolop", "unaryop", "cmpop", "alias"):
                continue     # no expression or statement can hide inside
            if (cls, f) in TRAVERSAL_EXEMPT:
                chk.ob("R10.2", f"{hname}:{f}:exempt", True, f"ptera/transform.py ({hname})", f"{cls}.{f} is not traversed: {TRAVERSAL_EXEMPT[(cls, f)]}")
                continue
            ok = tall or f in tf
            chk.ob("R10.2", f"{hname}:{f}:traversed", ok, f"ptera/transform.py ({hname})",
                   f"{hname} traverses the child field `{f}` ({t}{q})" + ("" if ok else " -- NOT traversed: bindings and loads inside it are invisible to the collector"))
    # ---------------- R10.4
    tr_cls = next(n for n in repo.module("transform").tree.body if isinstance(n, ast.ClassDef) and any(is_name(b, "NodeTransformer") for b in n.bases))
    init = next(m for m in tr_cls.body if isinstance(m, ast.FunctionDef) and m.name == "__init__")
    finit = facts_of(init)
    ext = [n for n in walk_local(init) if isinstance(n, ast.Assign) and norm(n.targets[0]) == "self.external"]
    ok = len(ext) == 1 and isinstance(ext[0].value, ast.BinOp)
    if ok:
        terms, cur = [], ext[0].value
        while isinstance(cur, ast.BinOp) and isinstance(cur.op, ast.Sub):
            terms.append(norm(cur.right))
            cur = cur.left
        ok = norm(cur) == "evc.used" and sorted(terms) == ["evc.assigned", "evc.free"]
    chk.ob("R10.4", "transformer.__init__:external=used-assigned-free", ok, f"ptera/transform.py:{init.lineno}",
           "external names are the used names that are neither assigned nor closure variables" + ("" if ok else f" -- found {norm(ext[0].value) if ext else 'nothing'}"))
    marks = [n for t_, c_, n in finit.items if isinstance(n, ast.Assign) and t_.startswith("self.provenance[") and t_.endswith("] = 'external'")]
    ok = len(marks) == 1 and finit.loops(marks[0]) == [f"for {norm(marks[0].targets[0].slice)} in self.external"] and not conds(marks[0], init)
    chk.ob("R10.4", "transformer.__init__:external-provenance", ok, f"ptera/transform.py:{init.lineno}",
           "every external name gets provenance 'external'")
    if col.init is None:
        raise AnalysisError("collector has no __init__")
    fci = facts_of(col.init)
    cv = col.init.args.args[3].arg if len(col.init.args.args) > 3 else "closure_vars"
    chk.ob("R10.4", "collector.__init__:closure-provenance", fci.has(f"self.free = set({cv})", exactly=[]) and fci.has(f"self.provenance = {{v: 'closure' for v in {cv}}}", exactly=[]), f"ptera/transform.py:{col.init.lineno}",
           "closure variables start as `free` with provenance 'closure'")
    sub_ = fci.find("self.used -= self.funcnames", exactly=[])
    vis_ = [n for n in fci.find(f"self.visit({col.init.args.args[1].arg})", exactly=[]) if isinstance(n, ast.Call)]
    chk.ob("R10.4", "collector.__init__:inner-function-names-not-used", len(sub_) == 1 and len(vis_) == 1 and order(vis_[0]) < order(sub_[0]), f"ptera/transform.py:{col.init.lineno}",
           "names of functions defined in the body are not treated as external reads")
    tr = repo.func("transform.transform")
    ftr = facts_of(tr)
    mk = [n for t_, c_, n in ftr.items if isinstance(n, ast.Call) and norm(n.func) == col.cls.name]
    chk.ob("R10.4", "transform:closure-names-from-co_freevars", len(mk) == 1 and len(mk[0].args) == 3 and expand(mk[0].args[2], tr.node) == f"{tr.node.args.args[0].arg}.__code__.co_freevars", tr.where,
           "closure names are taken from the code object (Python's own answer)")
    chk.ob("R10.4", "transform:info-over-used-and-assigned", ftr.mentions("for k in transformer.used | transformer.assigned}") or ftr.mentions("for k in transformer.assigned | transformer.used}"), tr.where,
           "the variable table covers every used or assigned name")
    upd = [n for n in walk_local(tr.node) if isinstance(n, ast.Expr) and norm(n.value) == "info.update(_standard_info())"]
    built = [n for n in walk_local(tr.node) if isinstance(n, ast.Assign) and norm(n.targets[0]) == "info"]
    chk.ob("R10.4", "transform:meta-table-merged-last", len(upd) == 1 and len(built) == 1 and order(upd[0]) > order(built[0]), tr.where,
           "the meta-variable rows are merged after the program's own names (they cannot be shadowed)")
    for lab, h, expr in (("argument", "visit_arg", "node.arg"), ("body", "visit_Name", "node.id")):
        hh = col.handlers.get(h)
        ok = hh is not None and any(k == expr and l == lab for k, l, g in col.effective(hh)[1])
        chk.ob("R10.4", f"collector.{h}:label-{lab}", ok, "ptera/transform.py", f"{h} labels its names with provenance {lab!r}")

    # a parameter stays a parameter: the 'body' label never replaces a provenance recorded earlier (parameters are visited before the body)
    over, soft = [], 0
    for q_, f2 in sorted(repo.functions.items()):
        if f2.cls != f"transform.{col.cls.name}":
            continue
        for n in walk_local(f2.node):
            if isinstance(n, ast.Assign) and len(n.targets) == 1 and isinstance(n.targets[0], ast.Subscript) and norm(n.targets[0].value) == "self.provenance" \
                    and isinstance(n.value, ast.Constant) and n.value.value == "body":
                key_ = norm(n.targets[0].slice)
                if not any(c_ in (f"{key_} not in self.provenance",) for c_ in conds(n, f2.node)):
                    over.append(f"{q_}: {norm(n)}")
                else:
                    soft += 1
            elif isinstance(n, ast.Call) and norm(n.func) == "self.provenance.setdefault" and len(n.args) == 2 and isinstance(n.args[1], ast.Constant) and n.args[1].value == "body":
                soft += 1
    chk.ob("R10.4", "collector:body-label-keeps-an-earlier-provenance", not over and soft >= 1, "ptera/transform.py",
           "a name bound in the body is labelled 'body' only if nothing was recorded for it before: a parameter that the body rebinds (x = x + 1, for y in ...) stays 'argument', "
           "as in Python's symbol table (is_parameter)" + (f" -- overwritten by {over}" if over else f" ({soft} non-overwriting labellings)"))

    from .shared import per_instance_state_obligations
    per_instance_state_obligations(repo, chk, "R10.4", [f"transform.{col.cls.name}", "transform.PteraTransformer"])

    # ---------------- R10.5
    from .shared import unwrap_obligations
    unwrap_obligations(repo, chk, "R10.5", "a function under several decorators, some of them callable objects (lru_cache, class-based decorators), is still reached, so its own names are selectable")
    from .shared import scratch_maker_obligations
    scratch_maker_obligations(repo, chk, "R10.5", "an activation that fails on a closure (a free variable still unbound) leaves nothing behind that would make later, valid selections on plain functions of that module fail")
    from .shared import eval_env_obligations
    eval_env_obligations(repo, chk, "R10.5", "a function name found in none of them is refused with the selector error, wherever the selector is written (script, REPL, module)")
    from .shared import closure_reference_obligations
    closure_reference_obligations(repo, chk, "R10.5")
    cg = CallGraph(repo)
    at = repo.func("overlay.autotool")
    g = CFG(at.node, lambda s: False)
    ver = g.find(lambda n: n.kind == "stmt" and any(isinstance(c, ast.Call) and is_name(c.func, "verify") for c in ast.walk(n.stmt)))
    wraps = g.find(lambda n: n.kind == "stmt" and "wrap_functions(_tool" in n.text())
    ok = bool(ver) and bool(wraps) and all(not g.path_exists(w, g.exit, avoid=ver, labels=("n", "t", "f")) for w in wraps)
    chk.ob("R10.5", "overlay.autotool:verify-after-tooling", ok, at.where, "every selector that gets tooled is verified before autotool returns normally")
    en = repo.func("probe.Probe._enter")
    g = CFG(en.node, lambda s: False)
    inst = g.find(lambda n: n.kind == "stmt" and "_install_tooling()" in n.text())
    act = g.find(lambda n: n.kind == "stmt" and n.text().replace(" ", "") == "self._activated=True")
    ok = bool(inst) and bool(act) and all(not g.path_exists(g.entry, a, avoid=inst) for a in act)
    chk.ob("R10.5", "probe.Probe._enter:tooling-and-verification-before-activation-counts", ok, en.where,
           "the selectors are tooled and verified before the probe is marked activated (a refusal leaves the probe unused)")
    from ..pairing import contextvars_of, journal_findings
    for jq in ("probe.Probe._install_tooling", "overlay.autotool"):
        jf = repo.func(jq)
        for journal, res, site, ok_, detail in journal_findings(repo, jf, cg, contextvars_of(repo)):
            chk.ob("R10.5", f"{jq}:refusal-undoes-exactly-what-was-done[{journal}:{site}]", ok_, jf.where,
                   f"when an activation is refused, {jq} undoes exactly the tooling that had completed (journal `{journal}`): the counters of the functions are where they were, so the next valid activation "
                   "finds the function instrumented and succeeds" if ok_ else detail)
    it = repo.func("probe.Probe._install_tooling")
    chk.ob("R10.5", "probe.Probe._install_tooling:autotool-every-selector", any(isinstance(n, ast.For) and norm(n.iter) == "self._selectors"
           and any(isinstance(c, ast.Call) and is_name(c.func, "autotool") for c in ast.walk(n)) for n in ast.walk(it.node)), it.where, "every selector of the probe goes through autotool (hence verify)")
    vf = repo.func("selector.verify")
    fvf = facts_of(vf)
    sp = vf.node.args.args[0].arg
    raises = [(t_, c_) for t_, c_, n in fvf.items if isinstance(n, ast.Raise)]
    ok = len(raises) == 1 and raises[0][0].startswith("raise SelectorError(") and f"{sp}.problems()" in raises[0][1] \
        and all(f"not {sp}.problems()" in c_ for t_, c_, n in fvf.items if isinstance(n, ast.Return)) and bool(returns_of(vf.node))
    chk.ob("R10.5", "selector.verify:SelectorError-iff-problems", ok, vf.where, "verify raises SelectorError exactly when problems() is non-empty")
    pr = repo.func("selector.Call.problems")
    fpr = facts_of(pr)
    reports = [(t_, set(c_), n) for t_, c_, n in fpr.starting("problems.append(") if isinstance(n, ast.Call)]
    fnv = (fpr.bound_to("self.element.name") or ["self.element.name"])[0]
    dv = ([v for t_ in ("info.get(x.name.split('.')[0], None)", "info.get(x.name.split('.')[0])", "info.get(name)") for v in fpr.bound_to(t_)] or ["data"])[0]
    for key, need, what in (
            ("wildcard-function", [{f"{fnv} is None"}, {"self.element.name is None"}], "a wildcard in function position"),
            ("untooled-function", [{"info is None"}, {f"getattr({fnv}, '__ptera_info__', None) is None"}, {"getattr(self.element.name, '__ptera_info__', None) is None"}],
             "a function without a variable table (not instrumentable / unresolved)"),
            ("missing-variable", [{f"not {dv}", "x.name is not None"}], "a variable that occurs nowhere in the function"),
            ("category-mismatch", [{f"not check_element(x, x.name, {dv}['annotation'])", dv}], "a named variable whose category does not match"),
            ("no-variable-with-category", [{"x.name is None"}], "a generic capture whose category matches no variable"),
            ("unknown-meta-variable", [{"x.name not in _valid_hashvars", "x.name.startswith('#')"}], "an undocumented #meta variable")):
        chk.ob("R10.5", f"selector.Call.problems:{key}", any(alt <= c_ for alt in need for _, c_, _ in reports), pr.where, f"problems() reports {what}")
    rec = fpr.find("problems.extend(x.problems())", exactly=[])
    chk.ob("R10.5", "selector.Call.problems:recurses-into-children", len(rec) >= 1 and all(fpr.loops(n) == ["for x in self.children"] for n in rec), pr.where, "nested call levels are verified as well")
    tl = repo.func("overlay._tooler")
    ftl = facts_of(tl)
    fp0 = tl.node.args.args[0].arg
    ok = any(isinstance(n, ast.Raise) and f"not hasattr({fp0}, '__code__')" in c_ for t_, c_, n in ftl.starting("raise TypeError(")) \
        and all(f"hasattr({fp0}, '__code__')" in c_ for t_, c_, n in ftl.items if isinstance(n, (ast.With, ast.Assign, ast.Return)) or (isinstance(n, ast.Call) and t_.endswith(".push(captures)")))
    chk.ob("R10.5", "overlay._tooler:TypeError-for-non-code-objects", ok, tl.where, "an object without __code__ is refused with TypeError before anything is changed")
    fp0 = tr.node.args.args[0].arg
    gate = f"isinstance({fp0}, types.FunctionType)"
    ok = any(isinstance(n, ast.Raise) and f"not {gate}" in c_ for t_, c_, n in ftr.starting("raise TypeError(")) \
        and all(gate in c_ for t_, c_, n in ftr.items if isinstance(n, (ast.Assign, ast.AugAssign, ast.Return, ast.With, ast.For)) and not _inner_function(n, tr.node))
    chk.ob("R10.5", "transform.transform:TypeError-for-non-functions", ok, tr.where, "transform refuses anything that is not a Python function with TypeError, first thing")
