"""Obligations shared by several properties (computed from the same templates)."""
from ..xform import query as Q
from ..xform.terms import Copy, GenericVisit, In, InList, Node, Raise, Rec, Star, Visit, children

HEADER_FIELDS = {"args", "decorator_list", "returns", "annotation"}
# handlers that may emit their input statement untouched: imports hold no expression; nested scopes are not this function's
WHOLE_NODE_OK = {"visit_Import", "visit_ImportFrom", "visit_FunctionDef[nested]", "visit_FunctionDef", "visit_AsyncFunctionDef", "visit_Lambda", "visit_ClassDef"}


def raw_occurrences(t, decisions=(), wrapped=False):
    """(slot, decisions, wrapped_by_visit) for each input slot occurrence."""
    if isinstance(t, (In, InList)):
        yield t, decisions, wrapped
        return
    if isinstance(t, (Visit, GenericVisit)):
        yield from raw_occurrences(t.x, decisions, True)
        return
    if isinstance(t, (Rec, Copy)):
        return          # Rec: judged at the analysed depth; Copy: the duplicate is reported by R01.1
    if isinstance(t, Star):
        for dec, items in t.alts:
            for it in items:
                yield from raw_occurrences(it, tuple(decisions) + tuple(dec), wrapped)
        return
    for c in children(t):
        yield from raw_occurrences(c, decisions, wrapped)


def unvisited_slot_obligations(chk, rule, H, want_expr=True, want_targets=False):
    """R02.3 / R06.5: every expression slot that may hold a walrus or a yield is emitted as VISIT(slot), never raw."""
    seen = {}
    for hname, paths in sorted(H.items()):
        if hname.endswith("[nested]"):
            continue
        for p in paths:
            if isinstance(p.template, Raise):
                continue
            for slot, dec, wrapped in raw_occurrences(p.template, p.decisions):
                if slot.path == "node" and not wrapped and hname not in WHOLE_NODE_OK:
                    # the statement is emitted as it came: nothing inside it was rewritten
                    d = dict(p.decisions)
                    if not (hname == "visit_AnnAssign" and d.get("present|node.value") is False):
                        seen.setdefault((hname, "whole-statement-visited"), []).append(False)
                    continue
                if slot.path == "node" or not isinstance(slot, (In, InList)):
                    continue
                field = Q.base_path(slot.path)
                last = slot.path.split(".")[-1].split("[")[0]
                if field in HEADER_FIELDS or last in HEADER_FIELDS:
                    continue
                if getattr(slot, "typ", None) != "expr":
                    if getattr(slot, "typ", None) == "stmt" and not wrapped and slot.path != "node.body[0]":
                        seen.setdefault((hname, f"{field}:statements-not-visited"), []).append(False)
                    continue
                if slot.ctx == "store":
                    if want_targets and hname != "visit_For":     # loop targets other than names / tuples of names are refused outright (C01 R01.7)
                        poss = Q.possible_kinds(slot, dec) if isinstance(slot, In) else {"?"}
                        compound = bool(poss - {"Name"})
                        seen.setdefault((hname, "target-subexpressions-visited"), []).append(wrapped or not compound)
                    continue
                if want_expr:
                    seen.setdefault((hname, f"{last}-visited"), []).append(wrapped)
    for (hname, what), oks in sorted(seen.items()):
        ok = all(oks)
        chk.ob(rule, f"{hname}:{what}", ok, f"ptera/transform.py ({hname})",
               f"{hname}: slot `{what.split('-')[0].split(':')[0]}` is rewritten recursively ({len(oks)} occurrence(s) over all paths)" if ok else
               f"{hname}: `{what}` fails -- the slot is copied into the output without being visited, so a walrus / yield nested in it is never instrumented")


def dictpile_obligations(repo, chk, rule):
    """The defaulting lookup behind `__ptera_globals[name]`: first dict that *contains* the key wins (whatever the value, None included);
    the default (ABSENT) is returned only when no dict contains it."""
    import ast
    from ..core import norm, walk_local
    from ..astq import facts_of
    from ..core import order
    gi = repo.func("utils.DictPile.__getitem__")
    fgi = facts_of(gi)
    loops = [n for n in walk_local(gi.node) if isinstance(n, ast.For) and norm(n.iter) == "self.dicts"]
    ok = False
    why = "no loop over self.dicts"
    item = gi.node.args.args[1].arg
    if len(loops) == 1:
        lp = loops[0]
        d = norm(lp.target)
        hits = [n for t, c, n in fgi.items if isinstance(n, ast.Return) and fgi.loops(n) == [f"for {d} in self.dicts"]]
        ok = len(hits) == 1 and fgi.has(f"return {d}[{item}]", exactly=[f"{item} in {d}"]) and not any(isinstance(n, (ast.Break, ast.Continue, ast.Assign, ast.AugAssign)) for n in ast.walk(lp))
        why = f"returns inside the loop: {[(norm(n), [c for t, c, m in fgi.items if m is n][0]) for n in hits]}"
    chk.ob(rule, "utils.DictPile.__getitem__:first-dict-containing-the-key", ok, gi.where,
           f"a name is taken from the first dict that contains it, by membership, whatever its value (a global that is None or falsy is still defined): {why}")
    dflt = fgi.find("return self.default", exactly=["self.default is not _MISSING"])
    ok = len(loops) == 1 and len(dflt) == 1 and not fgi.loops(dflt[0]) and order(dflt[0]) > order(loops[0]) \
        and any(isinstance(n, ast.Raise) and set(c) == {"self.default is _MISSING"} and order(n) > order(loops[0]) for t, c, n in fgi.items)
    chk.ob(rule, "utils.DictPile.__getitem__:default-only-when-absent-everywhere", ok, gi.where,
           "the default (the ABSENT marker for generated code) is returned only after every dict was searched")


    # the pile built for generated code: the function's own module globals first, then the builtins (the order LOAD_GLOBAL uses), ABSENT as default
    from ..astq import expand
    tr = repo.func("transform.transform")
    piles = [n for n in walk_local(tr.node) if isinstance(n, ast.Call) and norm(n.func) == "DictPile"]
    why = f"{len(piles)} DictPile(...) constructions in transform()"
    ok = False
    if len(piles) == 1:
        pc = piles[0]
        args = [expand(a, tr.node) for a in pc.args]
        kws = {k.arg: expand(k.value, tr.node) for k in pc.keywords}
        ok = args == ["fn.__globals__", "__builtins__"] and kws == {"default": "ABSENT"}
        why = f"DictPile({', '.join(args)}{''.join(f', {k}={v}' for k, v in kws.items())})"
    chk.ob(rule, "transform.transform:globals-pile-is-module-globals-then-builtins-default-ABSENT", ok, tr.where,
           f"generated code reads an external name through a pile that consults the function's module globals before the builtins -- a module-level name "
           f"that shadows a builtin (`from numpy import round`) resolves as in the original -- and yields the ABSENT marker only when neither has it: {why}")


def call_aggregates(repo, prop):
    """selector.Call.<prop> looks at the level's own captures AND at its child calls (a value condition / receiver constraint
    written on a nested call decides whether the capture check is installed at all)."""
    import ast
    from ..astq import is_name, is_self_attr
    fi = repo.func(f"selector.Call.{prop}")
    selfattrs = {n.attr for n in ast.walk(fi.node) if is_self_attr(n)}
    attrs = {n.attr for n in ast.walk(fi.node) if isinstance(n, ast.Attribute)}
    ok = {"captures", "children"} <= selfattrs and prop in attrs and \
        (any(isinstance(n, ast.Call) and is_name(n.func, "any") for n in ast.walk(fi.node)) if prop == "hasval" else True)
    return fi, ok


def late_bound(fn_node):
    import ast
    from ..core import norm
    """Closures created inside a loop / comprehension that read the loop variable freely (they would all see its last value)."""
    out = []
    for comp in ast.walk(fn_node):
        gens = getattr(comp, "generators", None)
        loopvars = set()
        if gens:
            for g_ in gens:
                loopvars |= {n.id for n in ast.walk(g_.target) if isinstance(n, ast.Name)}
            scope = [comp.elt] if hasattr(comp, "elt") else [comp.key, comp.value]
        elif isinstance(comp, ast.For):
            loopvars = {n.id for n in ast.walk(comp.target) if isinstance(n, ast.Name)}
            scope = comp.body
        else:
            continue
        for sc in scope:
            for lam in ast.walk(sc):
                if isinstance(lam, (ast.Lambda, ast.FunctionDef)):
                    params = {a.arg for a in lam.args.args + lam.args.kwonlyargs}
                    body = lam.body if isinstance(lam.body, list) else [lam.body]
                    free = {n.id for b in body for n in ast.walk(b) if isinstance(n, ast.Name) and isinstance(n.ctx, ast.Load)} - params
                    if free & loopvars:
                        out.append(f"{norm(lam)[:60]} reads {sorted(free & loopvars)} late")
    return out


def default_of(repo, qual, param):
    """Source text of the default value of a parameter (positional or keyword-only), None if it has none."""
    import ast
    a = repo.func(qual).node.args
    pos = a.posonlyargs + a.args
    for p, d in zip(pos[len(pos) - len(a.defaults):], a.defaults):
        if p.arg == param:
            return ast.unparse(d)
    for p, d in zip(a.kwonlyargs, a.kw_defaults):
        if p.arg == param and d is not None:
            return ast.unparse(d)
    return None


MUTATING_METHODS = {"append", "extend", "insert", "add", "update", "remove", "discard", "pop", "clear", "sort", "reverse", "setdefault", "popitem", "__iadd__"}


def shared_value_mutations(repo, classes):
    """In the methods of the given (interned, cached) classes: a local that may hold a value read from an attribute of some
    object -- directly, through a conditional expression / `or`, or through a subscript of such a value -- and is then
    changed in place (+=, a mutating method, an item store).  The attribute (a constructor field or a cached property of an
    interned selector) is shared by every selector built from that object, in every probe of the process.
    -> [description]"""
    import ast
    from ..core import norm, walk_local
    out = []
    for q, fi in sorted(repo.functions.items()):
        if fi.cls not in classes:
            continue
        def may_alias(e):
            if isinstance(e, ast.Attribute):
                return True
            if isinstance(e, ast.Subscript):
                return may_alias(e.value)
            if isinstance(e, ast.IfExp):
                return may_alias(e.body) or may_alias(e.orelse)
            if isinstance(e, ast.BoolOp):
                return any(may_alias(v) for v in e.values)
            if isinstance(e, ast.NamedExpr):
                return may_alias(e.value)
            return False
        aliases = {}
        for n in walk_local(fi.node):
            if isinstance(n, ast.Assign) and len(n.targets) == 1 and isinstance(n.targets[0], ast.Name) and may_alias(n.value):
                aliases[n.targets[0].id] = n
        for n in walk_local(fi.node):
            tgt = None
            if isinstance(n, ast.AugAssign) and isinstance(n.target, ast.Name):
                tgt, how = n.target.id, f"`{norm(n)}`"
            elif isinstance(n, ast.Call) and isinstance(n.func, ast.Attribute) and n.func.attr in MUTATING_METHODS and isinstance(n.func.value, ast.Name):
                tgt, how = n.func.value.id, f"`{norm(n)[:60]}`"
            elif isinstance(n, (ast.Assign, ast.Delete)):
                for t in (n.targets if isinstance(n, (ast.Assign, ast.Delete)) else []):
                    if isinstance(t, ast.Subscript) and isinstance(t.value, ast.Name):
                        tgt, how = t.value.id, f"`{norm(n)[:60]}`"
            if tgt in aliases:
                out.append(f"{q}: `{tgt}` may be the object read in `{norm(aliases[tgt])[:70]}` and is changed in place by {how}")
            # direct: self.x.append(..) / self.x += ..
            if isinstance(n, ast.Call) and isinstance(n.func, ast.Attribute) and n.func.attr in MUTATING_METHODS and isinstance(n.func.value, ast.Attribute) \
                    and fi.node.name != "__init__":
                out.append(f"{q}: `{norm(n)[:60]}` changes an attribute value in place")
    return out


def variant_selection_obligations(repo, chk, rule, suffix=""):
    """Which compiled variant of a function runs: the key is None exactly when nothing is active and otherwise EVERY capture
    with a positive count (as the distinct elements they are); a registered key is returned as is and a new variant
    instruments exactly the requested captures.  Shared by the properties that depend on 'what is selected is what is
    instrumented' (C02 C05 C06 C08 C16)."""
    import ast
    from ..astq import facts_of, is_name, kwarg, literals, returns_with_conds
    from ..core import norm
    get = repo.func("transform.StackedTransforms.get")
    fget = facts_of(get)
    ok, why = False, "shape not recognised"
    cases = []
    shape_ok = True
    for cs, v, r in returns_with_conds(get.node):
        if not (isinstance(v, ast.Call) and norm(v.func) == "self.tset.transform_for" and len(v.args) == 1 and not v.keywords):
            shape_ok = False
            continue
        a0 = v.args[0]
        if isinstance(a0, ast.Name):
            defs = [(t[len(a0.id) + 3:], set(c)) for t, c, n in fget.items if t.startswith(f"{a0.id} = ") and not (isinstance(n, ast.Assign) and isinstance(n.value, ast.IfExp))]
            cases += [(txt, c | set(cs)) for txt, c in defs]
        elif isinstance(a0, ast.IfExp):
            cases += [(norm(a0.body), set(cs) | set(literals(a0.test, True))), (norm(a0.orelse), set(cs) | set(literals(a0.test, False)))]
        else:
            cases.append((norm(a0), set(cs)))
    if shape_ok and cases:
        none_c = [c for t, c in cases if t == "None"]
        live_c = [c for t, c in cases if t == "[cap for cap, count in self.captures.items() if count > 0]"]
        # None (the base code) when nothing is active -- or when the base itself is the statically tooled, fully instrumented function
        static = "self.tset.base_is_tooled"
        zero_or_static = [{"self.instrument_count == 0 or " + static}, {static + " or self.instrument_count == 0"}]
        live_want = [{"self.instrument_count != 0", "not " + static}]
        ok = len(cases) == 2 and len(none_c) == 1 and len(live_c) == 1 and (
            none_c[0] == {"self.instrument_count == 0"} and live_c[0] == {"self.instrument_count != 0"} or none_c[0] in zero_or_static and live_c[0] in live_want)
        keeps_static = len(none_c) == 1 and none_c[0] in zero_or_static
        why = f"cases of the key: {[(t, sorted(c)) for t, c in cases]}"
    else:
        keeps_static = False
    chk.ob(rule, "transform.StackedTransforms.get:none-iff-count-zero" + suffix, ok, get.where,
           "variant key is None exactly when no probe is active (or the base is the statically tooled function) and otherwise every capture element with a positive count: " + why)
    sb_ = repo.func("transform.TransformSet._set_base")
    flag = [norm(n.value) for n in ast.walk(sb_.node) if isinstance(n, ast.Assign) and any(norm(t) == "self.base_is_tooled" for t in n.targets)]
    p_ = sb_.node.args.args[1].arg
    chk.ob(rule, "transform.StackedTransforms.get:a-statically-tooled-function-keeps-its-full-instrumentation" + suffix,
           keeps_static and flag == [f"getattr({p_}, '__ptera_info__', None) is not None"], get.where,
           "a function tooled with @tooled / tooled.inplace reports every variable; activating a probe on it must not swap in a variant that only reports the probe's own "
           "variables (an overlay active on the same function would silently lose every other event): the base code is kept whenever the base is tooled "
           f"(flag set in _set_base from the base function's __ptera_info__: {flag})")
    sb = repo.func("transform.TransformSet._set_base")
    chk.ob(rule, "transform.TransformSet._set_base:base-under-None" + suffix, facts_of(sb).has(f"self._register(None, {sb.node.args.args[1].arg})", exactly=[]), sb.where,
           "the untouched function (its original code object) is what is registered under key None")
    rg = repo.func("transform.TransformSet._register")
    kp, fp = (a.arg for a in rg.node.args.args[1:3])
    chk.ob(rule, "transform.TransformSet._register:records-code" + suffix, any(isinstance(n, ast.Assign) and not c for t, c, n in facts_of(rg).starting(f"self.transforms[{kp}] = ({fp}, {fp}.__code__,")), rg.where,
           "a variant is registered with its code object under its capture key")
    tf = repo.func("transform.TransformSet.transform_for")
    ftf = facts_of(tf)
    cp = tf.node.args.args[1].arg
    made = [c for t, c, n in ftf.items if isinstance(n, ast.Call) and is_name(n.func, "transform")]
    regs = [n for t, c, n in ftf.items if isinstance(n, ast.Call) and norm(n.func) == "self._register"]
    ok = ftf.has(f"return self.transforms[{cp}]", exactly=[f"{cp} in self.transforms"]) and bool(made) and all(f"{cp} not in self.transforms" in c for c in made) \
        and all(kwarg(n, "to_instrument") is not None and is_name(kwarg(n, "to_instrument"), cp) for t, c, n in ftf.items if isinstance(n, ast.Call) and is_name(n.func, "transform")) \
        and bool(regs) and all(n.args and is_name(n.args[0], cp) for n in regs) \
        and all(t in (f"{cp} = frozenset({cp})",) for t, c, n in ftf.items if isinstance(n, ast.Assign) and any(is_name(x, cp) for x in n.targets))
    # nothing else is ever answered: every return is the entry registered under exactly this key, or the freshly registered variant
    from ..astq import returns_with_conds, expand
    from ..core import walk_local
    odd = []
    for cs, v, r in returns_with_conds(tf.node):
        t = expand(v, tf.node) if v is not None else "None"
        if t == f"self.transforms[{cp}]" and f"{cp} in self.transforms" in cs:
            continue
        if t.startswith("self._register(") and f"{cp} not in self.transforms" in cs:
            continue
        odd.append(f"line {r.lineno}: return {t[:60]}")
    stores = [norm(n)[:70] for n in walk_local(tf.node) if isinstance(n, (ast.Assign, ast.AugAssign)) and any(
        isinstance(t_, ast.Subscript) and norm(t_.value) == "self.transforms" for t_ in (n.targets if isinstance(n, ast.Assign) else [n.target]))]
    chk.ob(rule, "transform.TransformSet.transform_for:answers-only-the-variant-of-this-key" + suffix, not odd and not stores, tf.where,
           "transform_for answers with the entry stored under exactly the requested capture set, or with the variant it has just built and registered for it -- a variant made for "
           "another capture set (same names, other tags / wildcards) is never handed out" + (f" -- {odd + stores}" if odd or stores else ""))
    chk.ob(rule, "transform.TransformSet.transform_for:cache-hit-first" + suffix, ok, tf.where,
           "the variant cache is keyed by the full capture set (only frozen, never reduced); a registered key (including None) is returned without re-transforming; a new variant instruments exactly the requested captures and is registered under that same key")


def activation_integrity_obligations(repo, chk, rule, what="the probes that are active"):
    """Shared structural fact behind every delivery property: instrumentation of a function is counted per user, and an activation that is
    refused half-way undoes exactly what it had done (rollback journal appended to only after the acquire it records).  If the journal
    runs ahead, a refusal releases a function once too many and probes still active on it silently stop receiving events."""
    from ..pairing import contextvars_of, journal_findings
    from ..callgraph import CallGraph
    cg = CallGraph(repo)
    n = 0
    for jq in ("probe.Probe._install_tooling", "overlay.autotool"):
        jf = repo.func(jq)
        for journal, res, site, ok_, detail in journal_findings(repo, jf, cg, contextvars_of(repo)):
            n += 1
            chk.ob(rule, f"{jq}:a-refused-activation-leaves-active-instrumentation-alone[{journal}:{site}]", ok_, jf.where,
                   f"when an activation is refused, {jq} undoes exactly the tooling that had completed (journal `{journal}`), so {what} keep the "
                   f"instrumentation their events come from" if ok_ else detail)
    if n == 0:
        from ..core import AnalysisError
        raise AnalysisError("no rollback journal found in Probe._install_tooling / overlay.autotool")


def unfresh_local_mutations(repo, prefixes):
    """In the given modules: a local name that is changed in place (mutating method, item store / delete, augmented item assignment) although
    one of its definitions is not a container created on the spot (display, comprehension, dict()/list()/set()/sorted() call, .copy(),
    a class instantiated there): it may be state that belongs to another object -- e.g. the live capture table `build()` returns for a root
    accumulator -- and the change leaks from one activation / embedding into another.  Parameters count as not fresh.
    -> (sites examined, [description])"""
    import ast
    from ..core import norm, walk_local
    FRESH_CALLS = {"dict", "list", "set", "sorted", "tuple", "frozenset", "defaultdict", "deepcopy", "copy"}
    classes = {c.rsplit(".", 1)[-1] for c in repo.classes}
    out, sites = [], 0

    def fresh(e):
        if isinstance(e, (ast.Dict, ast.List, ast.Set, ast.DictComp, ast.ListComp, ast.SetComp, ast.Constant)):
            return True
        if isinstance(e, ast.Call):
            if isinstance(e.func, ast.Name) and (e.func.id in FRESH_CALLS or e.func.id in classes):
                return True
            if isinstance(e.func, ast.Attribute) and e.func.attr in ("copy", "snapshot"):
                return True
        if isinstance(e, ast.IfExp):
            return fresh(e.body) and fresh(e.orelse)
        if isinstance(e, ast.Attribute) and isinstance(e.value, ast.Name) and e.value.id == "self":
            return True          # a local alias of the object's OWN attribute: changing it is changing self.<attr>, which the other rules look at
        return False

    def definitions(fi, name):
        """every binding of `name` visible in fi: its own, or those of the enclosing function for a free variable"""
        f = fi
        while f is not None:
            params = {a.arg for a in f.node.args.args + f.node.args.kwonlyargs + f.node.args.posonlyargs} | {x.arg for x in (f.node.args.vararg, f.node.args.kwarg) if x}
            defs = [n for n in walk_local(f.node) if isinstance(n, (ast.Assign, ast.AnnAssign, ast.AugAssign, ast.For, ast.With, ast.NamedExpr))]
            vals = []
            for n in defs:
                if isinstance(n, ast.Assign):
                    for t in n.targets:
                        if isinstance(t, ast.Name) and t.id == name:
                            vals.append(n.value)
                        elif isinstance(t, (ast.Tuple, ast.List)) and any(isinstance(x, ast.Name) and x.id == name for x in ast.walk(t)):
                            vals.append(None)
                elif isinstance(n, ast.AnnAssign) and isinstance(n.target, ast.Name) and n.target.id == name and n.value is not None:
                    vals.append(n.value)
                elif isinstance(n, ast.NamedExpr) and n.target.id == name:
                    vals.append(n.value)
                elif isinstance(n, ast.For) and any(isinstance(x, ast.Name) and x.id == name for x in ast.walk(n.target)):
                    vals.append(None)
                elif isinstance(n, ast.With) and any(i.optional_vars is not None and any(isinstance(x, ast.Name) and x.id == name for x in ast.walk(i.optional_vars)) for i in n.items):
                    vals.append(None)
            if name in params:
                vals.append(None)
            if vals:
                return vals
            f = f.parent
        return None          # a module-level name: state of the module, meant to be shared
    for q, fi in sorted(repo.functions.items()):
        if not q.startswith(tuple(prefixes)):
            continue
        for n in walk_local(fi.node):
            recv, how = None, None
            if isinstance(n, ast.Call) and isinstance(n.func, ast.Attribute) and n.func.attr in MUTATING_METHODS and isinstance(n.func.value, ast.Name):
                recv, how = n.func.value.id, norm(n)[:70]
            elif isinstance(n, ast.Subscript) and isinstance(n.ctx, (ast.Store, ast.Del)) and isinstance(n.value, ast.Name):
                recv, how = n.value.id, norm(n)[:70] + (" = ..." if isinstance(n.ctx, ast.Store) else " (deleted)")
            if recv is None or recv in ("self", "cls"):
                continue
            vals = definitions(fi, recv)
            if vals is None:
                continue
            sites += 1
            bad = [("a parameter / loop variable" if v is None else norm(v)[:60]) for v in vals if v is None or not fresh(v)]
            if bad:
                out.append(f"{q}: `{recv}` is changed in place by `{how}` but may be {' / '.join(bad)}")
    return sites, out


def plus_obligations(repo, chk, rule, why="other contexts and later activations never see it"):
    """HandlerCollection.plus is a pure function of the receiver and its argument: one return of a constructor call over the receiver's
    pairs followed by the new ones, and no store that outlives the call (no memo: a collection built while one context was current --
    e.g. inside a suspended generator -- must not be handed out again under another)."""
    import ast
    from ..core import norm, walk_local
    from ..astq import expand, returns_of
    pl = repo.func("overlay.HandlerCollection.plus")
    arg = pl.node.args.args[1].arg
    rets = returns_of(pl.node)
    vals = [ast.parse(expand(r.value, pl.node), mode="eval").body for r in rets if r.value is not None]
    shape = len(rets) == 1 and len(vals) == 1 and isinstance(vals[0], ast.Call) and norm(vals[0].func) in ("type(self)", "self.__class__", "HandlerCollection") \
        and len(vals[0].args) == 1 and not vals[0].keywords and norm(vals[0].args[0]) in (f"self.handler_pairs + {arg}", f"[*self.handler_pairs, *{arg}]", f"self.handler_pairs + list({arg})")
    stores = [norm(n)[:60] for n in walk_local(pl.node) if (isinstance(n, (ast.Attribute, ast.Subscript)) and isinstance(n.ctx, (ast.Store, ast.Del)))
              or isinstance(n, (ast.Global, ast.Nonlocal))
              or (isinstance(n, ast.Call) and isinstance(n.func, ast.Attribute) and n.func.attr in MUTATING_METHODS)]
    chk.ob(rule, "overlay.HandlerCollection.plus:a-new-collection-computed-from-receiver-and-argument-only", shape and not stores, pl.where,
           f"plus returns a new collection holding the receiver's pairs followed by the added ones, computed afresh on every call and remembered nowhere, so {why}"
           + (f" (returns {[norm(v) for v in vals]}; stores {stores})" if not (shape and not stores) else ""))


def refused_enter_obligations(repo, chk, rule):
    """Probe._enter: nothing that may raise runs after something was installed (tooling, handlers, registry membership) unless the
    function releases it again on that path -- a refused activation leaves a probe that was never activated with nothing installed."""
    from ..callgraph import CallGraph
    from ..cfg import CFG
    from ..core import norm
    from ..pairing import classify_stmt, contextvars_of, node_probe, rollback_findings
    cg = CallGraph(repo)
    ctxvars = contextvars_of(repo)
    fi = repo.func("probe.Probe._enter")
    sites, findings = rollback_findings(fi, cg, ctxvars, None)
    bad = {}
    for res, acq, culprit, path in findings:
        bad.setdefault((res, acq), []).append(culprit)
    g = CFG(fi.node, cg.stmt_may_raise(fi))
    n_acq = 0
    for n in g.nodes:
        pr = node_probe(n) if n.stmt is not None else None
        for res, kind, detail in (classify_stmt(pr, ctxvars, None) if pr is not None else []):
            if kind != "acq":
                continue
            n_acq += 1
            acq = norm(pr)[:80]
            culprits = bad.get((res, acq), [])
            chk.ob(rule, f"probe.Probe._enter:a-refused-activation-leaves-nothing-installed[{res}:{acq}]", not culprits, fi.where,
                   f"after `{acq}` nothing in _enter can fail without undoing it: a probe whose activation is refused holds no {res}"
                   + (f" -- but {culprits} may raise afterwards" if culprits else ""))
    if n_acq < 2:
        from ..core import AnalysisError
        raise AnalysisError(f"probe.Probe._enter: only {n_acq} acquisitions recognised (tooling, overlay, registry expected)")


def refused_exit_obligations(repo, chk, rule):
    """Probe._exit: leaving the overlay is what refuses the deactivation of a probe that is not active (never entered: no token; already
    left: a used token) -- nothing else is released on that path, or counts that this probe does not hold are given back (another
    probe's function returns to its original code; a later probe starts from -1)."""
    from ..callgraph import CallGraph
    from ..cfg import CFG
    from ..core import AnalysisError, norm
    from ..pairing import classify_stmt, contextvars_of, node_probe
    cg = CallGraph(repo)
    ctxvars = contextvars_of(repo)
    fi = repo.func("probe.Probe._exit")
    base = cg.stmt_may_raise(fi)

    def cls_of(g):
        out = {}
        for n in g.nodes:
            pr = node_probe(n) if n.stmt is not None else None
            out[n.id] = [c for c in (classify_stmt(pr, ctxvars, None) if pr is not None else []) if c[1] == "rel"]
        return out
    g0 = CFG(fi.node, base)
    gates = [n.stmt for n in g0.nodes if any(res.startswith("context:") for res, k, d in cls_of(g0)[n.id])]
    chk.ob(rule, "probe.Probe._exit:leaves-the-overlay-once", len(gates) == 1, fi.where, f"{len(gates)} statement(s) of _exit leave the probe's overlay (one expected)")
    if len(gates) != 1:
        return
    gate = gates[0]
    g = CFG(fi.node, lambda st: st is gate or base(st))
    cls = cls_of(g)
    gate_nodes = [n for n in g.nodes if n.stmt is gate]
    first = [s for n in gate_nodes for s, lab in n.succ if lab == "e"]
    after_refusal = g.reach(first) | {s.id for s in first}
    others = 0
    seen = set()
    for n in g.nodes:
        for res, k, d in cls[n.id]:
            if n.stmt is gate or (res, d) in seen:
                continue
            seen.add((res, d))
            others += 1
            hit = [m for m in g.nodes if m.stmt is n.stmt and m.id in after_refusal]
            before = g.reach([g.entry], avoid=gate_nodes)
            hit += [m for m in g.nodes if m.stmt is n.stmt and m.id in before]      # released before the overlay exit had its say
            chk.ob(rule, f"probe.Probe._exit:a-refused-deactivation-releases-nothing[{res}]", not hit, fi.where,
                   f"`{norm(n.stmt)[:60]}` does not run when `{norm(gate)[:50]}` refuses (probe never activated or already deactivated): "
                   f"no {res} that this probe does not hold is given back" + (f" -- but it is reachable without / from the refusal (line {hit[0].line})" if hit else ""))
    chk.ob(rule, "probe.Probe._exit:releases-registry-and-tooling-after-the-overlay", others >= 2, fi.where,
           f"{others} release(s) next to the overlay exit (membership in global_probes and the tooling are both given back)")


def variant_symbol_obligations(repo, chk, rule):
    """Every code variant refers to its function through a symbol in the module globals (`with proceed(_ptera__N)` is the first thing a call
    runs) and frames of a replaced variant may still be about to run it (another thread between call and first line; a generator not yet
    started): the symbols only ever accumulate.  The only removals from a function's globals are transform()'s own scratch names
    (the `#WRAP` maker and the def name it did not find there before)."""
    import ast
    from ..astq import expand
    from ..core import AnalysisError, norm, walk_local
    allowed, other = [], []
    for q, fi in sorted(repo.functions.items()):
        if not q.startswith(("transform.", "overlay.")):
            continue
        aliases = {t.id for n in walk_local(fi.node) if isinstance(n, ast.Assign) and norm(n.value).endswith(".__globals__")
                   for t in n.targets if isinstance(t, ast.Name)}

        def is_glb(e):
            return norm(e).endswith(".__globals__") or isinstance(e, ast.Name) and e.id in aliases
        for n in walk_local(fi.node):
            key = None
            if isinstance(n, ast.Call) and isinstance(n.func, ast.Attribute) and n.func.attr in ("pop", "popitem", "clear", "__delitem__") and is_glb(n.func.value):
                key = n.args[0] if n.args else None
                site = n
            elif isinstance(n, ast.Delete) and any(isinstance(t, ast.Subscript) and is_glb(t.value) for t in n.targets):
                key = next(t.slice for t in n.targets if isinstance(t, ast.Subscript) and is_glb(t.value))
                site = n
            else:
                continue
            kt = expand(key, fi.node) if key is not None else "<everything>"
            scratch = q == "transform.transform" and key is not None and (
                isinstance(key, ast.Constant) and isinstance(key.value, str) and key.value.startswith("#") or kt.endswith(".__name__"))
            (allowed if scratch else other).append((q, kt, fi.where, site.lineno))
    if len(allowed) < 1:
        raise AnalysisError("transform.transform: no removal of its scratch names from the globals recognised (2 confirmed by hand; the obligation inventory notes a missing one)")
    for q, kt, where, line in allowed:
        chk.ob(rule, f"{q}:removes-only-its-scratch-name[{kt}]", True, where, f"`{kt}` is a name transform() itself put into the globals for the duration of the exec")
    bad = sorted({(q, kt) for q, kt, w, l in other})
    chk.ob(rule, "transform+overlay:variant-symbols-are-never-unbound", not other, "ptera/transform.py, ptera/overlay.py",
           "nothing else is ever removed from a function's globals: the symbol a variant calls itself by stays bound while frames of that variant can still start"
           + (f" -- {bad} (line {other[0][3]})" if other else ""))


def reinstall_obligations(repo, chk, rule, why):
    """SyncedStackedTransforms.push / pop: every change of the shared counters is followed by _apply on every normal path (no "nothing
    changed" short cut decided on bookkeeping that keeps released names with count 0)."""
    from ..cfg import CFG
    for m in ("push", "pop"):
        fi = repo.func(f"transform.SyncedStackedTransforms.{m}")
        g = CFG(fi.node, lambda s_: False)
        sup = g.find(lambda n: n.kind == "stmt" and f"super().{m}(" in n.text())
        app = g.find(lambda n: n.kind == "stmt" and "self._apply(" in n.text())
        ok = bool(sup) and bool(app) and all(not g.path_exists(s_, g.exit, avoid=app, labels=("n", "t", "f")) for s_ in sup)
        chk.ob(rule, f"transform.SyncedStackedTransforms.{m}:variant-reinstalled-after-every-count-change", ok, fi.where,
               f"after the counts changed, {m} installs the variant selected for the new counts on every normal path: {why}")


def scratch_maker_obligations(repo, chk, rule, why):
    """transform(): exec() leaves the closure factory `#WRAP` in the module's globals; the branch that finds it there removes it as the very
    first thing it does (the pop is the first call executed: `glb.pop("#WRAP")(<cells>)` evaluates the callee before the arguments).  If reading
    the cells (an empty cell: ValueError) or anything else could fail first, the factory stays behind and every later instrumentation of a
    plain function of that module takes the closure branch."""
    import ast
    from ..core import norm, walk_local

    def first_call(e):
        """the first call executed when e is evaluated (callee before arguments, left to right)"""
        if isinstance(e, ast.Call):
            for sub in [e.func] + list(e.args) + [k.value for k in e.keywords]:
                r = first_call(sub.value if isinstance(sub, ast.Starred) else sub)
                if r is not None:
                    return r
            return e
        if isinstance(e, (ast.Lambda, ast.FunctionDef)):
            return None
        for c in ast.iter_child_nodes(e):
            if isinstance(c, ast.expr):
                r = first_call(c)
                if r is not None:
                    return r
            elif isinstance(c, ast.comprehension):
                r = first_call(c.iter)
                if r is not None:
                    return r
        return None
    tr = repo.func("transform.transform")
    tests = [n for n in walk_local(tr.node) if isinstance(n, ast.If) and isinstance(n.test, ast.Compare) and isinstance(n.test.ops[0], (ast.In, ast.NotIn))
             and isinstance(n.test.left, ast.Constant) and n.test.left.value == "#WRAP"]
    ok, found = False, "no `'#WRAP' in <globals>` branch"
    # the same decision written as a conditional expression
    conds_ = [n for n in walk_local(tr.node) if isinstance(n, ast.IfExp) and isinstance(n.test, ast.Compare) and isinstance(n.test.ops[0], ast.In)
              and isinstance(n.test.left, ast.Constant) and n.test.left.value == "#WRAP"]
    if len(tests) + len(conds_) == 1:
        if tests:
            br = tests[0].body if isinstance(tests[0].test.ops[0], ast.In) else tests[0].orelse
            st = br[0] if br else ast.Pass()
            val = st.value if isinstance(st, (ast.Assign, ast.Expr, ast.Return)) else None
        else:
            st = val = conds_[0].body
        fc = first_call(val) if val is not None else None
        found = norm(fc)[:50] if fc is not None else f"`{norm(st)[:50]}`"
        risky = val is not None and any(isinstance(n, ast.Attribute) and n.attr == "cell_contents" for n in ast.walk(val)) and fc is None
        ok = fc is not None and isinstance(fc.func, ast.Attribute) and fc.func.attr == "pop" and fc.args and isinstance(fc.args[0], ast.Constant) and fc.args[0].value == "#WRAP" and not risky
    chk.ob(rule, "transform.transform:scratch-maker-removed-before-anything-can-fail", ok, tr.where,
           f"the branch that finds the closure factory `#WRAP` in the globals pops it before it evaluates anything else (first call executed there: {found}): {why}")


def registry_order_obligations(repo, chk, rule, why):
    """Every `X.__code__ = new` of the run-time modules is preceded on every path by the codefind registry update for the same function and
    code (the registry must learn the move while X still runs the old code: update_cache_entry(X, X.__code__, new) reads the old code from X)."""
    from .c14 import OUT_OF_SCOPE, code_stores, registry_dominates
    from ..core import norm
    n = 0
    for q, fi in sorted(repo.functions.items()):
        if q in OUT_OF_SCOPE:
            continue
        for st, tgt, val in code_stores(fi.node):
            n += 1
            ok, why_ = registry_dominates(fi.node, st, tgt.value, val)
            chk.ob(rule, f"{q}:store[{norm(st)}]", ok, fi.where,
                   f"`{norm(st)}` is preceded on every path by the registry update for the same function and code: {why}" + (f" -- {why_}" if not ok else ""))
    if n == 0:
        chk.ob(rule, "package:code-stores-found", False, "ptera/", "no `X.__code__ = ..` store found (the variant installation vanished)")


def contextmanager_release_obligations(repo, chk, rule, why):
    """The @contextmanager generators of overlay.py that enter an overlay or set the handler ContextVar release it on the exception edge of
    their `yield` too (the block they wrap may be left by any exception -- StopIteration from an exhausted generator included)."""
    import ast
    from ..callgraph import CallGraph
    from ..core import call_name, norm
    from ..pairing import contextvars_of, rollback_findings
    from .c05 import acquire_functions
    cg = CallGraph(repo)
    ctxvars = contextvars_of(repo)
    n = 0
    acq = {fi.qual: wrap for fi, wrap in acquire_functions(repo, ctxvars, cg)}
    for q, fi in sorted(repo.functions.items()):
        if not (q.startswith("overlay.") and any(isinstance(x, (ast.Yield, ast.YieldFrom)) for x in ast.walk(fi.node))
                and any(norm(d).endswith("contextmanager") for d in fi.node.decorator_list)):
            continue
        if q in acq:
            n += 1
            sites, findings = rollback_findings(fi, cg, ctxvars, acq[q])
            bad = sorted({f"{res} after `{a_[:40]}` when `{culprit[:30]}` raises" for res, a_, culprit, path in findings})
            chk.ob(rule, f"{q}:released-when-the-block-raises", not bad and sites > 0, fi.where,
                   f"{q} gives back what it installed on every way out of the block, exceptions included ({sites} acquire site(s)): {why}" + (f" -- {bad}" if bad else ""))
        else:
            # nothing is acquired by a plain statement: the yield sits inside `with <overlay>:` (the with statement releases on every way out)
            ys = [x for x in ast.walk(fi.node) if isinstance(x, (ast.Yield, ast.YieldFrom))]
            def in_with(y):
                cur = getattr(y, "_parent", None)
                while cur is not None and cur is not fi.node:
                    if isinstance(cur, ast.With):
                        return True
                    cur = getattr(cur, "_parent", None)
                return False
            if ys and all(in_with(y) for y in ys):
                n += 1
                chk.ob(rule, f"{q}:released-when-the-block-raises", True, fi.where, f"{q} yields inside a `with` statement that owns the overlay: {why}")
    chk.ob(rule, "overlay:context-manager-generators-found", n >= 2, "ptera/overlay.py", f"{n} @contextmanager generators that install handlers analysed (tapping, no_overlay ...)")


def installs_selected_variant_obligations(repo, chk, rule, why):
    """SyncedStackedTransforms._apply installs the code object that was recorded when the selected variant was registered (second component of
    the registered tuple), not whatever the variant function object runs now: the entry under None records the target function itself, whose
    current code is the variant being replaced."""
    import ast
    from ..astq import facts_of
    from ..core import norm, walk_local
    ap = repo.func("transform.SyncedStackedTransforms._apply")
    fap = facts_of(ap)
    fnp = ap.node.args.args[1].arg
    unpack = [n for n in walk_local(ap.node) if isinstance(n, ast.Assign) and norm(n.value) == "self.get()" and isinstance(n.targets[0], ast.Tuple) and len(n.targets[0].elts) == 4]
    parts = [norm(e) for e in unpack[0].targets[0].elts] if len(unpack) == 1 else [None] * 4
    chk.ob(rule, "transform.SyncedStackedTransforms._apply:installs-selected-variant",
           len(unpack) == 1 and fap.has(f"{fnp}.__code__ = {parts[1]}", exactly=[]) and fap.has(f"{fnp}.__ptera_info__ = {parts[2]}", exactly=[]), ap.where,
           f"_apply installs the recorded code and info of the variant selected by get(): {why}")


def fork_own_list_obligations(repo, chk, rule, why):
    """BaseOverlay.fork() builds the clone through the constructor with the handlers unpacked (the constructor copies them into a list of its own):
    what tweaking / rewriting / tapping add to a fork never lands in the overlay it was forked from."""
    import ast
    from ..astq import expand, returns_of
    from ..core import norm
    fk = repo.func("overlay.BaseOverlay.fork")
    ctor_names = {"type(self)", "self.__class__"} | {c.rsplit(".", 1)[-1] for c in repo.classes if "overlay.BaseOverlay" in repo.mro(c)}
    rets = returns_of(fk.node)

    def fresh_overlay(v):
        v_ = ast.parse(expand(v, fk.node), mode="eval").body if v is not None else None
        return isinstance(v_, ast.Call) and norm(v_.func) in ctor_names and not v_.keywords and len(v_.args) == 1 and isinstance(v_.args[0], ast.Starred) \
            and norm(v_.args[0].value) == "self.handlers"
    chk.ob(rule, "overlay.BaseOverlay.fork:a-new-overlay-with-its-own-list", bool(rets) and all(fresh_overlay(r_.value) for r_ in rets), fk.where,
           f"fork() goes through the constructor with the handlers unpacked (returns: {[norm(r_.value) for r_ in rets]}): {why}")


def tag_table_read_obligations(repo, chk, rule, why):
    """Call.all_tags is a defaultdict kept by cached_property on an interned selector: reading it with a subscript INSERTS the missing key for every
    later reader of that selector (the focus pattern is decided by which keys are present).  Outside its own construction the table is only
    iterated, tested with `in` / .get / .items / .keys / .values, or converted."""
    import ast
    from ..core import norm, walk_local
    reads, bad = 0, []
    for q, fi in sorted(repo.functions.items()):
        if q.endswith(".all_tags"):
            continue
        for n in walk_local(fi.node):
            if isinstance(n, ast.Attribute) and n.attr == "all_tags":
                reads += 1
                par = getattr(n, "_parent", None)
                if isinstance(par, ast.Subscript) and par.value is n:
                    bad.append(f"{q}: {norm(par)}")
                elif isinstance(par, ast.Attribute) and par.attr in ("setdefault", "pop", "update", "clear", "__getitem__", "__setitem__"):
                    bad.append(f"{q}: {norm(par)}")
    chk.ob(rule, "selector.Call.all_tags:read-without-inserting", reads >= 1 and not bad, "ptera/probe.py, ptera/selector.py",
           f"the cached tag table of a selector is never subscripted or changed by its readers ({reads} reads): {why}" + (f" -- {bad}" if bad else ""))


def count_integrity_obligations(repo, chk, rule, why):
    """StackedTransforms: the per-capture counts and the probe count change ONLY by the +1 of push and the -1 of pop -- the table is never rebuilt, pruned,
    cleared or replaced outside __init__ (a rebuilt table that keeps the keys but not the counts lets the second-to-last user's release remove a
    variable that is still probed)."""
    import ast
    from ..core import norm, walk_local
    bad, n_upd = [], 0
    for q, fi in sorted(repo.functions.items()):
        if not q.startswith("transform.") or q.endswith(".__init__"):
            continue
        for n in walk_local(fi.node):
            if isinstance(n, ast.AugAssign) and (norm(n.target).endswith(".instrument_count") or ".captures[" in norm(n.target)):
                n_upd += 1
                if not (isinstance(n.value, ast.Constant) and n.value.value == 1 and isinstance(n.op, (ast.Add, ast.Sub))):
                    bad.append(f"{q}: {norm(n)}")
            elif isinstance(n, (ast.Assign, ast.AugAssign, ast.Delete)):
                tgts = n.targets if isinstance(n, (ast.Assign, ast.Delete)) else [n.target]
                for t in tgts:
                    tt = norm(t)
                    if tt.endswith(".captures") or tt.endswith(".instrument_count") or (".captures[" in tt and not isinstance(n, ast.AugAssign)):
                        bad.append(f"{q}: {norm(n)[:70]}")
            elif isinstance(n, ast.Call) and isinstance(n.func, ast.Attribute) and norm(n.func.value).endswith(".captures") \
                    and n.func.attr in ("clear", "pop", "popitem", "update", "subtract", "setdefault", "__delitem__", "__setitem__"):
                bad.append(f"{q}: {norm(n)[:70]}")
    chk.ob(rule, "transform.StackedTransforms:counts-change-only-by-one", n_upd >= 4 and not bad, "ptera/transform.py (StackedTransforms)",
           f"outside __init__ the instrumentation counts are only ever incremented / decremented by one ({n_upd} updates): {why}" + (f" -- {bad}" if bad else ""))


def close_order_obligations(repo, chk, rule, why):
    """Interactor.exit closes the registered accumulators by iterating over to_close front to back (registration order = activation order of the probes)."""
    import ast
    from ..astq import is_name
    from ..core import norm, walk_local
    ie = repo.func("interpret.Interactor.exit")
    loops = [n for n in walk_local(ie.node) if isinstance(n, ast.For) and norm(n.iter) == "self.to_close"]
    ok = len(loops) == 1 and any(isinstance(c, ast.Call) and isinstance(c.func, ast.Attribute) and c.func.attr == "close" and is_name(c.func.value, loops[0].target.id)
                                 for c in ast.walk(loops[0])) and not any(isinstance(n, ast.While) for n in walk_local(ie.node))
    chk.ob(rule, "interpret.Interactor.exit:closes-in-registration-order", ok, ie.where,
           f"exit() walks to_close from the first registered accumulator to the last (no pop from the end, no reversal): {why}")


def unwrap_obligations(repo, chk, rule, why):
    """selector._dig follows every __wrapped__ link (whatever kind of object the link holds) until it reaches a tooled function or the innermost object."""
    import ast
    from ..astq import conds, facts_of, literals
    from ..core import walk_local
    dg = repo.func("selector._dig")
    loops = [n for n in walk_local(dg.node) if isinstance(n, ast.While)]
    fdg = facts_of(dg)
    steps = fdg.find("fn = fn.__wrapped__")
    ok = len(loops) == 1 and len(steps) == 1 and sorted(literals(loops[0].test, True)) == sorted(["hasattr(fn, '__wrapped__')", "not is_tooled(fn)"]) and fdg.loops(steps[0]) \
        and sorted(conds(steps[0], dg.node)) == sorted(literals(loops[0].test, True))
    chk.ob(rule, "selector._dig:follows-__wrapped__", ok, dg.where, f"follows __wrapped__ until a tooled function (or the innermost object): {why}")


def token_only_restore_obligations(repo, chk, rule, why):
    """proceed.__exit__ puts the caller's collection back only by resetting the token it took at entry: it never `set()`s the variable (a collection remembered
    from another context would be installed where the activation is being finished)."""
    import ast
    from ..core import norm, walk_local
    ex = repo.func("overlay.proceed.__exit__")
    sets = [norm(n)[:60] for n in walk_local(ex.node) if isinstance(n, ast.Call) and isinstance(n.func, ast.Attribute) and n.func.attr == "set" and norm(n.func.value).endswith(".current")]
    resets = [n for n in walk_local(ex.node) if isinstance(n, ast.Call) and isinstance(n.func, ast.Attribute) and n.func.attr == "reset" and norm(n.func.value).endswith(".current")]
    chk.ob(rule, "overlay.proceed.__exit__:restores-only-through-its-token", len(resets) == 1 and not sets, ex.where,
           f"the handler variable is restored by reset(token) alone: {why}" + (f" -- also {sets}" if sets else ""))


def value_once_obligations(repo, chk, rule, why, H=None):
    """The value slot of every binding statement occurs exactly once in its rewritten form (instrumented or not): the bound value is evaluated once and is what every
    interaction of that statement reports."""
    from ..xform import query as Q
    from ..xform.terms import Raise
    from .c04 import VALUE_HANDLERS
    if H is None:
        cls, H, stats = Q.templates(repo, chk.tier)
    for hname, field in VALUE_HANDLERS.items():
        worst = 1
        n_paths = 0
        for p in H.get(hname, []):
            if isinstance(p.template, Raise) or dict(p.decisions).get(f"present|node.{field}") is False:
                continue
            n_paths += 1
            n = Q.count_slot(p.template, lambda s_: s_.path == f"node.{field}")
            if n != 1:
                worst = n
        chk.ob(rule, f"{hname}:{field}:evaluated-once-on-every-path", worst == 1 and n_paths > 0, f"ptera/transform.py ({hname})",
               f"the right-hand side of {hname[6:]} occurs once in every rewritten form ({n_paths} paths): {why}" + ("" if worst == 1 else f" -- {worst} times on some path"))


def parse_is_stateless_obligations(repo, chk, rule, why):
    """selector.py keeps no module-level table that functions write to at run time, apart from the intern table of the metaclass (a class attribute): what
    `parse` / `select` answer depends on their argument alone, never on what was compiled earlier in the process."""
    import ast
    from ..core import norm, walk_local
    tree = repo.module("selector").tree
    tables = {t.id for st in tree.body if isinstance(st, ast.Assign) for t in st.targets if isinstance(t, ast.Name)
              and (isinstance(st.value, (ast.Dict, ast.List, ast.Set)) and not (st.value.keys if isinstance(st.value, ast.Dict) else st.value.elts)
                   or isinstance(st.value, ast.Call) and norm(st.value.func) in ("dict", "list", "set", "defaultdict", "collections.defaultdict", "OrderedDict", "WeakValueDictionary", "weakref.WeakValueDictionary"))}
    written = []
    for q, fi in sorted(repo.functions.items()):
        if not q.startswith("selector."):
            continue
        for n in walk_local(fi.node):
            if isinstance(n, (ast.Assign, ast.AugAssign)):
                for t in (n.targets if isinstance(n, ast.Assign) else [n.target]):
                    for x in ast.walk(t):
                        if isinstance(x, ast.Subscript) and isinstance(x.value, ast.Name) and x.value.id in tables:
                            written.append(f"{q}: {norm(n)[:50]}")
            elif isinstance(n, ast.Call) and isinstance(n.func, ast.Attribute) and isinstance(n.func.value, ast.Name) and n.func.value.id in tables \
                    and n.func.attr in ("append", "add", "update", "setdefault", "extend", "insert", "pop", "clear"):
                written.append(f"{q}: {norm(n)[:50]}")
            elif isinstance(n, ast.Global) and set(n.names) & tables:
                written.append(f"{q}: global {sorted(set(n.names) & tables)}")
    chk.ob(rule, "selector:no-module-level-memo-written-at-run-time", not written, "ptera/selector.py",
           f"no module-level container of selector.py is filled by its functions ({sorted(tables) or 'none defined'}): {why}" + (f" -- {written}" if written else ""))


def push_under_lock_obligations(repo, chk, rule, why):
    """overlay._tooler / _untooler change the stack of a function (counts, variant, code swap) inside `with _tooling_lock:`."""
    import ast
    from ..core import norm, walk_local
    for q, meth in (("overlay._tooler", "push"), ("overlay._untooler", "pop")):
        fi = repo.func(q)
        calls = [n for n in walk_local(fi.node) if isinstance(n, ast.Call) and isinstance(n.func, ast.Attribute) and n.func.attr == meth]

        def locked(n):
            cur = getattr(n, "_parent", None)
            while cur is not None and cur is not fi.node:
                if isinstance(cur, ast.With) and any("lock" in norm(it.context_expr).lower() for it in cur.items):
                    return True
                cur = getattr(cur, "_parent", None)
            return False
        chk.ob(rule, f"{q}:{meth}-under-the-tooling-lock", len(calls) == 1 and all(locked(c) for c in calls), fi.where,
               f"`{meth}` (count update, variant selection, code swap) runs inside the lock that serialises instrumentation changes: {why}")


def fit_memo_obligations(repo, chk, rule, why):
    """HandlerCollection.proceed: whether a function fits a selector level is remembered under the key (function object, selector) -- not under
    its name, its id() (recycled once the function is collected) or anything else several functions can share."""
    from .proceed_shape import proceed_shape
    P = proceed_shape(repo)
    ok = P.memo.ok and P.memo.key == f"({P.fn}, {P.sel})"
    chk.ob(rule, "overlay.HandlerCollection.proceed:fit-decided-per-function-object", ok, P.pr.where,
           f"the fit memo is keyed by the function OBJECT and the selector (found key `{P.memo.key}`): {why}")


def hasval_obligations(repo, chk, rule, why):
    """selector.Call.hasval decides whether the value check wraps a handler at all: it must see the conditions on nested calls too."""
    hv, ok = call_aggregates(repo, "hasval")
    chk.ob(rule, "selector.Call.hasval:sees-nested-constraints", ok, hv.where,
           f"whether the capture check is installed at all is decided by Call.hasval over the captures AND the child calls: {why}")
    call_aggregate_obligations(repo, chk, rule, ["hasval"], why)


def keep_pending_obligations(repo, chk, rule, why):
    """HandlerCollection.proceed: a non-immediate selector is carried into the callee's collection whenever it is not immediate -- whether
    or not it fits the function being entered, whatever its accumulator is."""
    from ..astq import conds
    from ..core import order
    from .proceed_shape import proceed_shape
    P = proceed_shape(repo)
    ok = P.inner is not None and len(P.keeps) == 1 and conds(P.keeps[0], P.loop) == [f"not {P.sel}.immediate"]
    chk.ob(rule, "overlay.HandlerCollection.proceed:keep-unless-immediate", ok, P.pr.where,
           f"every non-immediate pending selector is carried into the callee unchanged, with its accumulator (conditions: {conds(P.keeps[0], P.loop) if P.keeps else 'no append'}): {why}")
    ok = bool(P.keeps) and bool(P.pushes) and P.fit_lit not in conds(P.keeps[0], P.loop) and order(P.keeps[0]) < min(order(c) for c in P.pushes)
    chk.ob(rule, "overlay.HandlerCollection.proceed:kept-before-and-regardless-of-fit", ok, P.pr.where,
           "the selector is kept before its children are pushed, and independently of the test whether it fits this function")


def eval_env_obligations(repo, chk, rule, why):
    """selector._find_eval_env: the environment in which the names of a selector are looked up is the pile (locals, globals, builtins) of the
    frame that wrote it -- three mappings, the last one ptera's own `__builtins__` (a dict in every imported module; a caller's
    `__builtins__` global is the module object when the caller is __main__, and `name in <module>` is a TypeError, not a refusal)."""
    import ast
    from ..astq import expand
    from ..core import norm, walk_local
    fe = repo.func("selector._find_eval_env")
    frame_names = sorted({n.value.id for n in walk_local(fe.node) if isinstance(n, ast.Attribute) and n.attr == "f_locals" and isinstance(n.value, ast.Name)})
    frp = frame_names[0] if len(frame_names) == 1 else "<frame>"
    piles = [n for n in walk_local(fe.node) if isinstance(n, ast.Call) and norm(n.func) == "DictPile"]

    def src(a):
        if isinstance(a, ast.Name):
            st = [x for x in walk_local(fe.node) if isinstance(x, ast.Assign) and any(isinstance(t, ast.Name) and t.id == a.id for t in x.targets)]
            if len(st) == 1:
                return norm(st[0].value)
        return expand(a, fe.node)
    shape = [[src(a) for a in n.args] for n in piles]
    chk.ob(rule, "selector._find_eval_env:names-resolve-as-in-the-writing-frame", len(piles) == 1 and not piles[0].keywords
           and shape[0] == [f"{frp}.f_locals", f"{frp}.f_globals", "__builtins__"], fe.where,
           f"the names of a selector are looked up in the locals, then the globals of the frame where it is written, then ptera's own builtins dict (found {shape}): {why}")


def call_exit_order_obligations(repo, chk, rule, why):
    """proceed.__exit__: the caller's collection is put back before the interactor closes its accumulators (= before Total handlers and
    whatever their subscribers do -- deactivate a probe, activate another -- run)."""
    from ..callgraph import CallGraph
    from ..pairing import contextvars_of, raising_before_release
    ctxvars = contextvars_of(repo)
    ex = repo.func("overlay.proceed.__exit__")
    early = raising_before_release(ex, f"ctxvar:{[c for c in ctxvars if 'current' in c][0]}", ctxvars, CallGraph(repo))
    chk.ob(rule, "overlay.proceed.__exit__:nothing-may-raise-before-the-reset", not early, ex.where,
           f"the call's own collection is replaced by the caller's before any close handler runs: {why}" + (f" -- runs first: {early}" if early else ""))


def closure_reference_obligations(repo, chk, rule, H=None):
    """Every code variant of a function references every closure variable of the original (the generated prologue mentions each
    one, whether or not it is instrumented): otherwise `fn.__code__ = variant` is refused by Python (ValueError: requires a code
    object with N free vars) and activating a perfectly valid selector fails."""
    from ..xform import query as Q
    from ..xform.terms import Ident, Node, Star, walk
    if H is None:
        cls, H, stats = Q.templates(repo, chk.tier)
    paths = H.get("visit_FunctionDef", [])
    n_stars, bad = 0, []
    for p in paths:
        stars = [x for x in walk(p.template) if isinstance(x, Star) and "free[*]" in str(x.over)]
        if not stars:
            bad.append("a path without any per-closure-variable prologue")
        for st in stars:
            n_stars += 1
            for dec, items in st.alts:
                reads = [y for it in items for y in walk(it) if isinstance(y, Node) and y.cls == "Name" and isinstance(y.fields.get("id"), Ident)
                         and y.fields["id"].path == "free[*]" and str(y.fields.get("ctx")) in ("Load", "K('Load')", "Load()")]
                if not reads and not any("Name(ID(free[*]):Load)" in repr(it) for it in items):
                    bad.append("{" + ",".join(f"{k}={v}" for k, v in dec) + "} emits nothing that reads the variable")
    if not paths:
        from ..core import AnalysisError
        raise AnalysisError("no visit_FunctionDef templates")
    chk.ob(rule, "visit_FunctionDef:every-variant-references-every-closure-variable", not bad and n_stars > 0, "ptera/transform.py (visit_FunctionDef)",
           f"for every closure variable the prologue of every variant contains a read of it (the interaction when it is instrumented, a bare read otherwise; {n_stars} prologues in {len(paths)} paths), "
           f"so each variant has the free variables of the original and can be installed as its code" + (f": {sorted(set(bad))}" if bad else ""))


# ---- argument routing: which value goes where when a binding is recorded / offered for override (data flow the suite never looks at:
# ---- the names kept next to the values, the category, the order of the arguments handed to handlers)
def routing_obligations(repo, chk, rule, subset):
    """subset: "record" (log path: WorkingFrame.log/trigger -> accumulator.log -> Capture.accum/set) or "offer" (intercept path:
    WorkingFrame.intercept -> BaseAccumulator.intercept -> the wrapped handler).  Every obligation compares the arguments of ONE call
    with the parameters / loop variables they must be, by role (parameter position), not by spelling."""
    import ast
    from ..core import norm, walk_local
    from ..astq import expand

    def params(fi):
        return [a.arg for a in fi.node.args.args]

    def calls(fi, pred):
        return [n for n in walk_local(fi.node) if isinstance(n, ast.Call) and pred(n)]

    def acc_loop(fi):
        """(element var, accumulator var) of `for <e>, <a> in self.accumulators`"""
        for n in walk_local(fi.node):
            if isinstance(n, ast.For) and norm(n.iter) == "self.accumulators" and isinstance(n.target, ast.Tuple) and len(n.target.elts) == 2:
                return tuple(norm(e) for e in n.target.elts)
        return (None, None)

    def ob(key, fi, ok, text):
        chk.ob(rule, f"{fi.qual}:{key}", ok, fi.where, text)

    def args_of(c, fi):
        return [expand(a, fi.node) for a in c.args] if not c.keywords else None
    if subset == "record":
        wl = repo.func("interpret.WorkingFrame.log")
        e, a = acc_loop(wl)
        cs = calls(wl, lambda n: isinstance(n.func, ast.Attribute) and n.func.attr == "log" and norm(n.func.value) == a)
        ob("hands-own-name-category-and-the-value-to-every-accumulator", wl, len(cs) == 1 and args_of(cs[0], wl) == [e, "self.varname", "self.category", params(wl)[1]],
           f"every matching accumulator is told (element, the frame's variable name, its category, the value bound): {[args_of(c, wl) for c in cs]}")
        wt = repo.func("interpret.WorkingFrame.trigger")
        e, a = acc_loop(wt)
        cs = calls(wt, lambda n: isinstance(n.func, ast.Attribute) and n.func.attr == "trigger" and norm(n.func.value) == a)
        ob("triggers-with-the-matching-element", wt, len(cs) == 1 and args_of(cs[0], wt) == [e], f"the trigger of an accumulator is called with the element it matched: {[args_of(c, wt) for c in cs]}")
        for q, meth in (("interpret.Total.log", "accum"), ("interpret.Immediate.log", "set")):
            fi = repo.func(q)
            ps = params(fi)
            cs = calls(fi, lambda n: isinstance(n.func, ast.Attribute) and n.func.attr in ("accum", "set"))
            ok = len(cs) == 1 and cs[0].func.attr == meth and args_of(cs[0], fi) == [ps[2], ps[4]] and expand(cs[0].func.value, fi.node) in (f"self.getcap({ps[1]})",)
            ob(f"records-name-and-value-in-the-capture-of-its-element", fi, ok,
               f"{q} files (variable name, value) -- parameters 2 and 4 -- in the capture of the element it was called for, with `{meth}`: "
               f"{[(expand(c.func.value, fi.node), c.func.attr, args_of(c, fi)) for c in cs]}")
        ca = repo.func("interpret.Capture.accum")
        ps = params(ca)
        ap = {norm(c.func.value): args_of(c, ca) for c in calls(ca, lambda n: isinstance(n.func, ast.Attribute) and n.func.attr == "append")}
        ob("name-to-names-value-to-values", ca, ap == {"self.names": [ps[1]], "self.values": [ps[2]]}, f"accum appends the variable name to names and the value to values (parallel lists): {ap}")
        cset = repo.func("interpret.Capture.set")
        ps = params(cset)
        st = {norm(n.targets[0]): norm(n.value) for n in walk_local(cset.node) if isinstance(n, ast.Assign) and len(n.targets) == 1 and isinstance(n.targets[0], ast.Attribute)}
        ob("name-to-names-value-to-values", cset, st == {"self.names": f"[{ps[1]}]", "self.values": f"[{ps[2]}]"}, f"set replaces names by [name] and values by [value]: {st}")
        wi = repo.func("interpret.WorkingFrame.__init__")
        ps = params(wi)
        st = {norm(n.targets[0]): norm(n.value) for n in walk_local(wi.node) if isinstance(n, ast.Assign) and len(n.targets) == 1 and isinstance(n.targets[0], ast.Attribute)
              and isinstance(n.value, ast.Name)}
        ob("keeps-name-key-category", wi, st == {"self.varname": ps[1], "self.key": ps[2], "self.category": ps[3]}, f"the working frame keeps the variable name, key and category it was created with: {st}")
        wo = repo.func("interpret.Interactor.work_on")
        ps = params(wo)
        cs = calls(wo, lambda n: norm(n.func) == "WorkingFrame")
        ob("frame-created-for-the-variable", wo, len(cs) == 1 and args_of(cs[0], wo) == [ps[1], ps[2], ps[3], "self.accumulators"],
           f"work_on builds the frame from (name, key, category) and this interactor's accumulators: {[args_of(c, wo) for c in cs]}")
        sn = repo.func("interpret.Capture.snapshot")
        rets = [n for n in walk_local(sn.node) if isinstance(n, ast.Return)]
        made = [n for n in walk_local(sn.node) if isinstance(n, ast.Assign) and len(n.targets) == 1 and isinstance(n.targets[0], ast.Name) and norm(n.value) == "Capture(self.element)"]
        cp = made[0].targets[0].id if len(made) == 1 else None
        st = {norm(n.targets[0]): norm(n.value) for n in walk_local(sn.node) if isinstance(n, ast.Assign) and len(n.targets) == 1 and isinstance(n.targets[0], ast.Attribute)}
        ok = cp is not None and len(rets) == 1 and rets[0].value is not None and norm(rets[0].value) == cp and st == {f"{cp}.names": "list(self.names)", f"{cp}.values": "list(self.values)"}
        ob("what-a-subscriber-receives-is-a-frozen-copy", sn, ok,
           f"snapshot() returns a NEW Capture of the same element holding copies of the name and value lists (returns {[norm(r.value) for r in rets if r.value is not None]}, fills {st}): "
           f"an event delivered earlier in a call is not rewritten by the later bindings of the same capture")
        cs_ = repo.func("interpret.BaseAccumulator._call_with_snapshot")
        snaps = [n for n in walk_local(cs_.node) if isinstance(n, (ast.DictComp,)) and isinstance(n.value, ast.Call) and isinstance(n.value.func, ast.Attribute) and n.value.func.attr == "snapshot"]
        ob("handlers-are-called-with-snapshots", cs_, len(snaps) == 1 and "build()" in norm(snaps[0].generators[0].iter),
           f"the handler's argument is built as {{name: capture.snapshot()}} over build(): {[norm(x)[:80] for x in snaps]}")
    if subset == "offer":
        wi = repo.func("interpret.WorkingFrame.intercept")
        e, a = acc_loop(wi)
        cs = calls(wi, lambda n: isinstance(n.func, ast.Attribute) and n.func.attr == "intercept" and norm(n.func.value) == a)
        ob("offers-own-name-category-and-the-tentative-value", wi, len(cs) == 1 and args_of(cs[0], wi) == [e, "self.varname", "self.category", params(wi)[1]],
           f"an overriding accumulator is offered (element, the frame's variable name, its category, the tentative value): {[args_of(c, wi) for c in cs]}")
        bi = repo.func("interpret.BaseAccumulator.intercept")
        ps = params(bi)
        sets = calls(bi, lambda n: isinstance(n.func, ast.Attribute) and n.func.attr == "set")
        caps = [n for n in walk_local(bi.node) if isinstance(n, ast.Call) and norm(n.func) == "Capture"]
        ok = len(sets) == 1 and args_of(sets[0], bi) == [ps[2], ps[4]] and len(caps) == 1 and args_of(caps[0], bi) == [ps[1]] \
            and expand(sets[0].func.value, bi.node) in (f"Capture({ps[1]})", norm(sets[0].func.value))
        ob("tentative-capture-holds-the-variable-name-and-the-tentative-value", bi, ok,
           f"the capture shown to the override function is a Capture of the matched element holding (variable name, tentative value): set{[args_of(c, bi) for c in sets]} on Capture{[args_of(c, bi) for c in caps]}")
        nf = repo.func("interpret.BaseAccumulator.__check.new_fn")
        ps = params(nf)
        cs = calls(nf, lambda n: isinstance(n.func, ast.Name) and n.func.id not in ("isinstance",))
        shapes = sorted(tuple(args_of(c, nf) or ["<keywords>"]) for c in cs)
        ob("handler-receives-the-wrapper's-arguments-in-order", nf, shapes == sorted([tuple(ps[:1]), tuple(ps[:3])]),
           f"the checked wrapper forwards (results) or, with pass_info, (results, acc, element) -- its own parameters in order: {shapes}")


def build_precedence_obligations(repo, chk, rule, why):
    """BaseAccumulator.build merges the capture tables from the accumulator itself up through its parents; where the same capture name
    exists at two levels (outer(x=1) > inner > x, recursion) the OUTER entry must win: that is the value a condition written on the
    outer level is checked against, and the context value reported.  Recognised merges inside the parent walk, with R the result and T
    the table of the level reached: R.update(T) / R |= T / R = {**R, **T} / R = R | T  (outer wins);  R = {**T, **R} / T | R (inner wins)."""
    import ast
    from ..core import norm, walk_local
    bd = repo.func("interpret.BaseAccumulator.build")
    loops = [n for n in walk_local(bd.node) if isinstance(n, ast.While)]
    verdict, detail = None, "no parent walk (`while <level>: ... <level> = <level>.parent`) found"
    if len(loops) == 1 and isinstance(loops[0].test, ast.Name):
        cur = loops[0].test.id
        steps = [n for n in ast.walk(loops[0]) if isinstance(n, ast.Assign) and norm(n) == f"{cur} = {cur}.parent"]
        starts = [n for n in walk_local(bd.node) if isinstance(n, ast.Assign) and norm(n) == f"{cur} = self"]
        T = f"{cur}.captures"
        merges = []
        for n in ast.walk(loops[0]):
            if isinstance(n, ast.Expr) and isinstance(n.value, ast.Call) and isinstance(n.value.func, ast.Attribute) and n.value.func.attr == "update" \
                    and len(n.value.args) == 1 and norm(n.value.args[0]) == T and isinstance(n.value.func.value, ast.Name):
                merges.append((n.value.func.value.id, "outer"))
            elif isinstance(n, ast.Assign) and len(n.targets) == 1 and isinstance(n.targets[0], ast.Name):
                R, v = n.targets[0].id, n.value
                parts = None
                if isinstance(v, ast.Dict) and all(k is None for k in v.keys) and len(v.values) == 2:
                    parts = [norm(x) for x in v.values]
                elif isinstance(v, ast.BinOp) and isinstance(v.op, ast.BitOr):
                    parts = [norm(v.left), norm(v.right)]
                if parts == [R, T]:
                    merges.append((R, "outer"))
                elif parts == [T, R]:
                    merges.append((R, "inner"))
        rets = [norm(r.value) for r in walk_local(bd.node) if isinstance(r, ast.Return) and r.value is not None]
        if len(steps) == 1 and len(starts) == 1 and len(merges) == 1 and merges[0][0] in rets:
            verdict = merges[0][1]
            detail = f"walk from self to the root, each level merged so that the {verdict} level wins"
        else:
            detail = f"walk over `{cur}`: {len(steps)} steps to the parent, {len(starts)} starts at self, merges {merges}, returns {rets}"
    chk.ob(rule, "interpret.BaseAccumulator.build:an-outer-level's-capture-wins-over-an-inner-one-of-the-same-name", verdict == "outer", bd.where,
           f"the record handed to handlers and to the value check takes, for a capture name present at several levels of the call path, the entry of the outermost level, so {why} ({detail})")


def annotation_cache_obligations(repo, chk, rule):
    """The memo of evaluated annotations lives and dies with one transformer (one instrumentation of one function) and is keyed by the
    annotation node itself: a value computed for one function, or at one moment, is never served to another (a forward reference that
    failed once must be evaluated again when another function is instrumented later)."""
    import ast
    from ..core import norm, walk_local
    ini = repo.func("transform.PteraTransformer.__init__")
    st = [n for n in walk_local(ini.node) if isinstance(n, ast.Assign) and len(n.targets) == 1 and norm(n.targets[0]) == "self.evalcache"]
    fresh = len(st) == 1 and isinstance(st[0].value, ast.Dict) and all(isinstance(k, ast.Constant) for k in st[0].value.keys)
    ev = repo.func("transform.PteraTransformer._evaluate")
    p = ev.node.args.args[1].arg
    keys = []
    for n in walk_local(ev.node):
        if isinstance(n, ast.Subscript) and norm(n.value) == "self.evalcache":
            keys.append(norm(n.slice))
        elif isinstance(n, ast.Compare) and len(n.ops) == 1 and isinstance(n.ops[0], (ast.In, ast.NotIn)) and norm(n.comparators[0]) == "self.evalcache":
            keys.append(norm(n.left))
    others = [q for q, f2 in repo.functions.items() if q not in (ini.qual, ev.qual) for n in walk_local(f2.node) if isinstance(n, ast.Attribute) and n.attr == "evalcache"]
    chk.ob(rule, "transform.PteraTransformer:annotation-values-are-memoised-per-instrumentation-and-per-node", fresh and bool(keys) and set(keys) == {p} and not others, ev.where,
           f"the cache of evaluated annotations is a new dict for every transformer (`{norm(st[0]) if st else 'no store'}`), used only by _evaluate and keyed by the annotation node "
           f"itself (keys {sorted(set(keys))}): no value is carried over to another function or another moment" + (f"; also touched in {others}" if others else ""))


def call_aggregate_obligations(repo, chk, rule, props, why):
    """Each aggregate of selector.Call (focus, hasval, main, valid, all_captures, all_values, all_tags) ranges over the level's own captures
    AND its child calls, in every place where it iterates: a sub-expression that looks at the captures only forgets everything written
    on nested calls (`f > g > x`: the focus, a value condition, a tag)."""
    import ast
    from ..core import norm, walk_local
    for prop in props:
        fi = repo.func(f"selector.Call.{prop}")
        iters = [n.iter for n in walk_local(fi.node) if isinstance(n, (ast.For, ast.comprehension))]
        cover = {"captures": 0, "children": 0}
        odd = []
        from ..astq import expand
        for it in iters:
            t = expand(it, fi.node)
            if t in ("self.captures + self.children", "self.children + self.captures"):
                cover["captures"] += 1
                cover["children"] += 1
            elif t == "self.captures":
                cover["captures"] += 1
            elif t == "self.children":
                cover["children"] += 1
            elif "self.captures" in t or "self.children" in t:
                odd.append(t)
        ok = cover["captures"] >= 1 and cover["captures"] == cover["children"] and not odd
        chk.ob(rule, f"selector.Call.{prop}:ranges-over-captures-and-children-alike", ok, fi.where,
               f"Call.{prop} looks at the captures and at the child calls the same number of times ({cover}{', other iterables ' + str(odd) if odd else ''}): {why}")


def per_instance_state_obligations(repo, chk, rule, classes):
    """The working state of a visitor (sets / dicts / lists it fills while walking one function) belongs to the instance: every attribute
    the methods change in place, or read as a container, is assigned a fresh container in __init__, and the class body holds no mutable
    container under that name.  A class-level set is shared by every instance of the process: what one function's analysis records
    (its nested function names, its assigned names) leaks into the analysis of every function instrumented later."""
    import ast
    from ..core import norm, walk_local
    for cq in classes:
        cls = repo.cls(cq)
        node = getattr(cls, "node", cls)
        class_level = {}
        for st in node.body:
            if isinstance(st, (ast.Assign, ast.AnnAssign)):
                tg = st.targets if isinstance(st, ast.Assign) else [st.target]
                v = st.value
                if v is not None and (isinstance(v, (ast.Set, ast.List, ast.Dict, ast.ListComp, ast.SetComp, ast.DictComp))
                                      or (isinstance(v, ast.Call) and isinstance(v.func, ast.Name) and v.func.id in ("set", "list", "dict", "defaultdict", "Counter", "deque"))):
                    for t in tg:
                        if isinstance(t, ast.Name):
                            class_level[t.id] = norm(st)[:50]
        init = next((f for f in node.body if isinstance(f, ast.FunctionDef) and f.name == "__init__"), None)
        init_attrs = {n.targets[0].attr for n in ast.walk(init) if isinstance(n, ast.Assign) and len(n.targets) == 1 and isinstance(n.targets[0], ast.Attribute)
                      and isinstance(n.targets[0].value, ast.Name) and n.targets[0].value.id == "self"} if init else set()
        mutated = set()
        for f in node.body:
            if not isinstance(f, ast.FunctionDef):
                continue
            for n in ast.walk(f):
                if isinstance(n, ast.Call) and isinstance(n.func, ast.Attribute) and n.func.attr in MUTATING_METHODS and isinstance(n.func.value, ast.Attribute) \
                        and isinstance(n.func.value.value, ast.Name) and n.func.value.value.id == "self":
                    mutated.add(n.func.value.attr)
                elif isinstance(n, ast.Subscript) and isinstance(n.ctx, (ast.Store, ast.Del)) and isinstance(n.value, ast.Attribute) and isinstance(n.value.value, ast.Name) \
                        and n.value.value.id == "self":
                    mutated.add(n.value.attr)
                elif isinstance(n, ast.AugAssign) and isinstance(n.target, ast.Attribute) and isinstance(n.target.value, ast.Name) and n.target.value.id == "self":
                    mutated.add(n.target.attr)
        shared = sorted(a for a in mutated if a in class_level)
        uninit = sorted(a for a in mutated if a not in init_attrs)
        chk.ob(rule, f"{cq}:working-state-belongs-to-the-instance", bool(mutated) and not shared and not uninit, f"ptera/{cq.split('.')[0]}.py",
               f"every container the methods of {cq.split('.')[-1]} fill ({', '.join(sorted(mutated))}) is created per instance in __init__"
               + (f"; shared at class level: {[(a, class_level[a]) for a in shared]}" if shared else "")
               + (f"; changed in place but not initialised in __init__: {uninit}" if uninit else ""))


def fork_obligations(repo, chk, rule, why):
    """Every accumulator class forks through BaseAccumulator.fork, and fork() returns a NEW accumulator on every path (a constructor call
    of the same class): each matching call gets capture tables of its own.  An override or a path that hands back `self` makes calls share
    one table -- the receiver, context values or condition operands of one call are then read by another."""
    import ast
    from ..core import norm, walk_local
    from ..astq import returns_of
    fk = repo.func("interpret.BaseAccumulator.fork")
    rets = returns_of(fk.node)
    fresh = bool(rets) and all(isinstance(r.value, ast.Call) and norm(r.value.func) in ("type(self)", "self.__class__") for r in rets)
    overrides = sorted(q for q, f2 in repo.functions.items() if q.startswith("interpret.") and q.endswith(".fork") and q != fk.qual)
    chk.ob(rule, "interpret:fork-always-makes-a-new-accumulator", fresh and not overrides, fk.where,
           f"fork() returns type(self)(...) on every path ({[norm(r.value)[:40] for r in rets]}) and no accumulator class overrides it{(' -- overridden in ' + str(overrides)) if overrides else ''}: {why}")


def call_extension_obligations(repo, chk, rule):
    """In the evaluation actions of the selector language, `call.clone(captures=..)` / `call.clone(children=..)` extend what the call already
    has (`call.captures + ..`), captures receive Element objects only and children Call objects only: a chain attached to a call keeps the
    sibling calls written in its parentheses, and a nested sequence never becomes a child."""
    import ast
    from ..core import AnalysisError, norm, walk_local
    from ..astq import is_name
    actions = [fi for q, fi in repo.functions.items() if fi.module == "selector" and
               any(isinstance(d, ast.Call) and isinstance(d.func, ast.Attribute) and d.func.attr == "register_action" for d in fi.node.decorator_list)]
    # what goes into the captures / children of a call: extensions of what is there, Elements into captures, Calls into children
    n_ext = 0
    for fi in sorted(actions, key=lambda f: f.qual):
        for n in walk_local(fi.node):
            if not (isinstance(n, ast.Call) and isinstance(n.func, ast.Attribute) and n.func.attr == "clone" and isinstance(n.func.value, ast.Name)):
                continue
            recv = n.func.value.id
            for k in n.keywords:
                if k.arg not in ("captures", "children"):
                    continue
                n_ext += 1
                v = k.value
                from ..astq import concat_parts
                parts_ = concat_parts(v)
                ext = len(parts_) >= 2 and parts_[0][0] == "seq" and norm(parts_[0][1]) == f"{recv}.{k.arg}"
                rest_ = parts_[1:] if ext else []
                added = None
                if ext:
                    added = rest_[0][1] if len(rest_) == 1 and rest_[0][0] == "seq" else ast.Tuple(elts=[x for kd, x in rest_], ctx=ast.Load()) if all(kd == "item" for kd, x in rest_) else None
                    if added is None:
                        ext = False
                want_kind = "Element" if k.arg == "captures" else "Call"
                kinds_ok, what = None, "?"
                if added is not None:
                    from ..astq import returned_list_sources
                    srcs_ = returned_list_sources(fi.node, value=added)
                    if srcs_:
                        # every contribution is one item of the evaluated argument list, admitted under isinstance(item, <kind>)
                        def admitted(cond_text, item):
                            return f"isinstance({item}, {want_kind})" in [c.strip() for c in cond_text.split(" and ")]
                        if all(kind_ == "the item" and admitted(c_, t_) for c_, l_, kind_, t_ in srcs_):
                            kinds_ok = True
                            what = f"items admitted by isinstance(.., {want_kind})"
                if added is not None and kinds_ok is None:
                    src = added
                    if isinstance(src, ast.Name):
                        defs = [a for a in walk_local(fi.node) if isinstance(a, ast.Assign) and len(a.targets) == 1 and is_name(a.targets[0], src.id)]
                        src = defs[-1].value if defs else src
                    if isinstance(src, ast.Call) and is_name(src.func, "tuple") and len(src.args) == 1:
                        src = src.args[0]
                    if isinstance(src, (ast.GeneratorExp, ast.ListComp)) and len(src.generators) == 1 and isinstance(src.generators[0].target, ast.Name) \
                            and is_name(src.elt, src.generators[0].target.id):
                        tests = [norm(c) for c in src.generators[0].ifs]
                        kinds_ok = tests == [f"isinstance({src.generators[0].target.id}, {want_kind})"]
                        what = f"the items of {norm(src.generators[0].iter)} filtered by {tests}"
                    elif isinstance(src, ast.Tuple):
                        kinds_ok = True          # single items: their kinds are decided by the operand-kind flow above
                        what = f"the item(s) {norm(src)}"
                chk.ob(rule, f"{fi.qual}:{k.arg}-extended-with-{want_kind}s-only", bool(ext) and kinds_ok is True, fi.where,
                       f"`{recv}.clone({k.arg}=...)` keeps what the call already had and adds {what}: " + ("" if ext else f"the new value `{norm(v)[:60]}` does not start from `{recv}.{k.arg}`; ")
                       + ("" if kinds_ok else f"only {want_kind} objects may be added (a nested sequence is neither a variable nor a call)"))
    if n_ext < 6:
        raise AnalysisError(f"only {n_ext} clone(captures= / children=) sites found in the evaluation actions (confirmed by hand: 7)")


def meta_tag_agreement_obligations(repo, chk, rule, H=None):
    """A meta event (#enter, #exit, #yield, #receive, #loop_v ...) is emitted under the decision `should_instrument(name, TAG)` for the very
    TAG it is delivered with: a selector that reaches it only through its tag (`f > $x:@enter`) instruments it exactly when it can match it."""
    from ..xform import query as Q
    if H is None:
        cls, H, stats = Q.templates(repo, chk.tier)
    n, bad = 0, set()
    for hname, paths in H.items():
        for p in paths:
            for x, dec in Q.with_decisions(p.template, p.decisions):
                if not Q.is_interact(x):
                    continue
                ix = Q.Interact(x)
                sym = repr(ix.symname)
                if not sym.startswith(("'#", "#")):
                    continue
                ann = repr(ix.ann)
                ann = "None" if ann in ("K(None)", "None") else ann
                mine = [(k, v) for k, v in dec if k.startswith("instrument|") and k.split("|")[1] == sym]
                if not mine:
                    continue
                n += 1
                other = sorted({k.split("|", 2)[2] for k, v in mine if k.split("|", 2)[2] != ann})
                if other:
                    bad.add(f"{hname}: {sym} is delivered with category {ann} but its emission also depends on should_instrument({sym}, {other})")
    if n == 0:
        from ..core import AnalysisError
        raise AnalysisError("no meta-variable interaction with its instrumentation decision found in the templates")
    chk.ob(rule, "templates:meta-events-decided-under-the-tag-they-carry", not bad, "ptera/transform.py (delimit, visit_Yield, visit_For)",
           f"every meta interaction ({n} occurrences) is emitted under should_instrument(name, tag) for the same tag it passes to interact" + (f": {sorted(bad)[:4]}" if bad else ""))


def intercept_combination_obligations(repo, chk, rule):
    """WorkingFrame.intercept combines the answers of all overriding handlers of a variable: ABSENT when nobody answers, otherwise the
    last answer that is not ABSENT, handlers asked in registration order.  A handler that declines (its value condition fails: the checked
    wrapper answers ABSENT) never displaces the answer of another one."""
    import ast
    from ..core import norm, walk_local
    from ..astq import conds, expand, facts_of, is_name, names_in, returns_of
    wi = repo.func("interpret.WorkingFrame.intercept")
    fwi = facts_of(wi)
    wr = returns_of(wi.node)
    R = wr[0].value.id if len(wr) == 1 and isinstance(wr[0].value, ast.Name) else "<result>"
    init = [n for n in wi.node.body if isinstance(n, ast.Assign) and is_name(n.targets[0], R)]
    chk.ob(rule, "interpret.WorkingFrame.intercept:default-ABSENT", len(init) == 1 and is_name(init[0].value, "ABSENT") and len(wr) == 1, wi.where,
           "without an answering handler the result is ABSENT (= keep the original value)")
    inner = [n for n in walk_local(wi.node) if isinstance(n, ast.Assign) and is_name(n.targets[0], R) and n not in init]
    ok = len(inner) == 1
    if ok:
        ans = expand(inner[0].value, wi.node)
        cs = [c for t, c, n in fwi.items if n is inner[0]][0]
        gate = f"{ans} is not ABSENT"
        if isinstance(inner[0].value, ast.Name):        # the answer may be named inside the test itself: `(tmp := acc.intercept(..)) is not ABSENT`
            for w_ in ast.walk(wi.node):
                if isinstance(w_, ast.NamedExpr) and is_name(w_.target, inner[0].value.id):
                    ans = norm(w_.value)
                    gate = f"({inner[0].value.id} := {ans}) is not ABSENT"
        ok = ans.startswith("acc.intercept(") and gate in cs and not any(R in names_in(ast.parse(c, mode="eval")) for c in conds(inner[0], wi.node))
    chk.ob(rule, "interpret.WorkingFrame.intercept:last-non-ABSENT-wins", ok, wi.where,
           "each handler's non-ABSENT answer overwrites the previous one (no 'first answer sticks' condition on the result)")
    loops = [n for n in walk_local(wi.node) if isinstance(n, ast.For)]
    chk.ob(rule, "interpret.WorkingFrame.intercept:list-order", len(loops) == 1 and norm(loops[0].iter) == "self.accumulators", wi.where,
           "handlers are asked in list order (no reversal), so 'last' is the last registered")



def registration_obligations(repo, chk, rule):
    """Interactor.register files one (element, accumulator) PAIR per matching variable name, by appending, and the working frame asks every
    pair in that order: two captures of one selector that both match a binding (`f($x:@A, $y:@B)` on a binding tagged A & B) are two entries."""
    import ast
    from ..core import norm, walk_local
    from ..astq import conds, facts_of, iter_text
    rg = repo.func("interpret.Interactor.register")
    frg = facts_of(rg)
    accp = rg.node.args.args[1].arg
    regs_ = [n for t, c, n in frg.items if isinstance(n, ast.Call) and t.startswith("self.accumulators[")]
    ok = len(regs_) == 1 and norm(regs_[0].func).endswith("].append") and norm(regs_[0].args[0]) == f"(element, {accp})" and not conds(regs_[0], rg.node) \
        and frg.loops(regs_[0]) == [f"for (element, varnames) in {rg.node.args.args[2].arg}.items()", f"for {norm(regs_[0].func.value.slice)} in varnames"]
    chk.ob(rule, "interpret.Interactor.register:appends", ok, rg.where, "accumulators are registered by appending")
    wf = repo.func("interpret.WorkingFrame.__init__")
    lc = [n for n in walk_local(wf.node) if isinstance(n, ast.ListComp)]
    chk.ob(rule, "interpret.WorkingFrame.__init__:keeps-order", len(lc) == 1 and iter_text(lc[0].generators[0].iter) == "accumulators.get(varname, ())", wf.where,
           "the working frame keeps the registration order of the matching accumulators")


def marker_free_definitions(ia, g, vname):
    """CFG nodes of Interactor.interact that (re)define the value as something known not to be the marker: `value = X` reached only
    under the condition `X is not ABSENT`.  Passing such a node is as good as passing the `value is ABSENT` test on its false edge."""
    import ast
    from ..core import norm
    from ..astq import conds, is_name
    out = []
    for n in g.nodes:
        if n.kind == "stmt" and isinstance(n.stmt, ast.Assign) and len(n.stmt.targets) == 1 and is_name(n.stmt.targets[0], vname):
            if f"{norm(n.stmt.value)} is not ABSENT" in conds(n.stmt, ia.node):
                out.append(n)
    return out
