"""Obligations shared by several properties (computed from the same templates)."""
from ..xform import query as Q
from ..xform.terms import Copy, GenericVisit, In, InList, Node, Raise, Rec, Star, Visit, children

HEADER_FIELDS = {"args", "decorator_list", "returns", "annotation"}
# handlers that may emit their input statement untouched: imports hold no expression; nested scopes are not this function's
WHOLE_NODE_OK = {"visit_Import", "visit_ImportFrom", "visit_FunctionDef[nested]", "visit_FunctionDef", "visit_AsyncFunctionDef", "visit_Lambda", "visit_ClassDef"}


def raw_occurrences(t, decisions=(), wrapped=False):
    """(slot, decisions, wrapped_by_visit) for each input slot occurrence."""
    if isinstance(t, (In, InList)):
        yield t, decisions, wrapped
        return
    if isinstance(t, (Visit, GenericVisit)):
        yield from raw_occurrences(t.x, decisions, True)
        return
    if isinstance(t, (Rec, Copy)):
        return          # Rec: judged at the analysed depth; Copy: the duplicate is reported by R01.1
    if isinstance(t, Star):
        for dec, items in t.alts:
            for it in items:
                yield from raw_occurrences(it, tuple(decisions) + tuple(dec), wrapped)
        return
    for c in children(t):
        yield from raw_occurrences(c, decisions, wrapped)


def unvisited_slot_obligations(chk, rule, H, want_expr=True, want_targets=False):
    """R02.3 / R06.5: every expression slot that may hold a walrus or a yield is emitted as VISIT(slot), never raw."""
    seen = {}
    for hname, paths in sorted(H.items()):
        if hname.endswith("[nested]"):
            continue
        for p in paths:
            if isinstance(p.template, Raise):
                continue
            for slot, dec, wrapped in raw_occurrences(p.template, p.decisions):
                if slot.path == "node" and not wrapped and hname not in WHOLE_NODE_OK:
                    # the statement is emitted as it came: nothing inside it was rewritten
                    d = dict(p.decisions)
                    if not (hname == "visit_AnnAssign" and d.get("present|node.value") is False):
                        seen.setdefault((hname, "whole-statement-visited"), []).append(False)
                    continue
                if slot.path == "node" or not isinstance(slot, (In, InList)):
                    continue
                field = Q.base_path(slot.path)
                last = slot.path.split(".")[-1].split("[")[0]
                if field in HEADER_FIELDS or last in HEADER_FIELDS:
                    continue
                if getattr(slot, "typ", None) != "expr":
                    if getattr(slot, "typ", None) == "stmt" and not wrapped and slot.path != "node.body[0]":
                        seen.setdefault((hname, f"{field}:statements-not-visited"), []).append(False)
                    continue
                if slot.ctx == "store":
                    if want_targets and hname != "visit_For":     # loop targets other than names / tuples of names are refused outright (C01 R01.7)
                        poss = Q.possible_kinds(slot, dec) if isinstance(slot, In) else {"?"}
                        compound = bool(poss - {"Name"})
                        seen.setdefault((hname, "target-subexpressions-visited"), []).append(wrapped or not compound)
                    continue
                if want_expr:
                    seen.setdefault((hname, f"{last}-visited"), []).append(wrapped)
    for (hname, what), oks in sorted(seen.items()):
        ok = all(oks)
        chk.ob(rule, f"{hname}:{what}", ok, f"ptera/transform.py ({hname})",
               f"{hname}: slot `{what.split('-')[0].split(':')[0]}` is rewritten recursively ({len(oks)} occurrence(s) over all paths)" if ok else
               f"{hname}: `{what}` fails -- the slot is copied into the output without being visited, so a walrus / yield nested in it is never instrumented")


def dictpile_obligations(repo, chk, rule):
    """The defaulting lookup behind `__ptera_globals[name]`: first dict that *contains* the key wins (whatever the value, None included);
    the default (ABSENT) is returned only when no dict contains it."""
    import ast
    from ..core import norm, walk_local
    from ..astq import facts_of
    from ..core import order
    gi = repo.func("utils.DictPile.__getitem__")
    fgi = facts_of(gi)
    loops = [n for n in walk_local(gi.node) if isinstance(n, ast.For) and norm(n.iter) == "self.dicts"]
    ok = False
    why = "no loop over self.dicts"
    item = gi.node.args.args[1].arg
    if len(loops) == 1:
        lp = loops[0]
        d = norm(lp.target)
        hits = [n for t, c, n in fgi.items if isinstance(n, ast.Return) and fgi.loops(n) == [f"for {d} in self.dicts"]]
        ok = len(hits) == 1 and fgi.has(f"return {d}[{item}]", exactly=[f"{item} in {d}"]) and not any(isinstance(n, (ast.Break, ast.Continue, ast.Assign, ast.AugAssign)) for n in ast.walk(lp))
        why = f"returns inside the loop: {[(norm(n), [c for t, c, m in fgi.items if m is n][0]) for n in hits]}"
    chk.ob(rule, "utils.DictPile.__getitem__:first-dict-containing-the-key", ok, gi.where,
           f"a name is taken from the first dict that contains it, by membership, whatever its value (a global that is None or falsy is still defined): {why}")
    dflt = fgi.find("return self.default", exactly=["self.default is not _MISSING"])
    ok = len(loops) == 1 and len(dflt) == 1 and not fgi.loops(dflt[0]) and order(dflt[0]) > order(loops[0]) \
        and any(isinstance(n, ast.Raise) and set(c) == {"self.default is _MISSING"} and order(n) > order(loops[0]) for t, c, n in fgi.items)
    chk.ob(rule, "utils.DictPile.__getitem__:default-only-when-absent-everywhere", ok, gi.where,
           "the default (the ABSENT marker for generated code) is returned only after every dict was searched")


def call_aggregates(repo, prop):
    """selector.Call.<prop> looks at the level's own captures AND at its child calls (a value condition / receiver constraint
    written on a nested call decides whether the capture check is installed at all)."""
    import ast
    from ..astq import is_name, is_self_attr
    fi = repo.func(f"selector.Call.{prop}")
    selfattrs = {n.attr for n in ast.walk(fi.node) if is_self_attr(n)}
    attrs = {n.attr for n in ast.walk(fi.node) if isinstance(n, ast.Attribute)}
    ok = {"captures", "children"} <= selfattrs and prop in attrs and \
        (any(isinstance(n, ast.Call) and is_name(n.func, "any") for n in ast.walk(fi.node)) if prop == "hasval" else True)
    return fi, ok


def late_bound(fn_node):
    import ast
    from ..core import norm
    """Closures created inside a loop / comprehension that read the loop variable freely (they would all see its last value)."""
    out = []
    for comp in ast.walk(fn_node):
        gens = getattr(comp, "generators", None)
        loopvars = set()
        if gens:
            for g_ in gens:
                loopvars |= {n.id for n in ast.walk(g_.target) if isinstance(n, ast.Name)}
            scope = [comp.elt] if hasattr(comp, "elt") else [comp.key, comp.value]
        elif isinstance(comp, ast.For):
            loopvars = {n.id for n in ast.walk(comp.target) if isinstance(n, ast.Name)}
            scope = comp.body
        else:
            continue
        for sc in scope:
            for lam in ast.walk(sc):
                if isinstance(lam, (ast.Lambda, ast.FunctionDef)):
                    params = {a.arg for a in lam.args.args + lam.args.kwonlyargs}
                    body = lam.body if isinstance(lam.body, list) else [lam.body]
                    free = {n.id for b in body for n in ast.walk(b) if isinstance(n, ast.Name) and isinstance(n.ctx, ast.Load)} - params
                    if free & loopvars:
                        out.append(f"{norm(lam)[:60]} reads {sorted(free & loopvars)} late")
    return out


def default_of(repo, qual, param):
    """Source text of the default value of a parameter (positional or keyword-only), None if it has none."""
    import ast
    a = repo.func(qual).node.args
    pos = a.posonlyargs + a.args
    for p, d in zip(pos[len(pos) - len(a.defaults):], a.defaults):
        if p.arg == param:
            return ast.unparse(d)
    for p, d in zip(a.kwonlyargs, a.kw_defaults):
        if p.arg == param and d is not None:
            return ast.unparse(d)
    return None
