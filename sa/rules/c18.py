"""C18 - malformed selectors are rejected cleanly: exception-escape analysis from the selector front end,
operand-kind flow through the evaluation actions, refusal checks reached."""
import ast

from ..astq import Facts, conds, ends_in_jump, expand, facts_of, is_name, kwarg, parse_fixture, returns_of
from ..callgraph import CallGraph
from ..core import AnalysisError, norm, walk_local, dotted

ENTRIES = ["selector.parse", "selector.select", "probe.Probe.__init__"]
ALLOWED = {"SyntaxError", "SelectorError", "CodeNotFoundError"}
# documented TypeError / ValueError / deliberate refusals: function -> reason
DOCUMENTED = {
    ("selector._resolve", "TypeError"): "a category that is not a tag",
    ("probe.Probe.__init__", "TypeError"): "no selector given / invalid probe_type",
    ("probe.Probe._make_emitter", "ValueError"): "unsupported focus pattern (e.g. !! without !)",
    ("probe.OverridableProbe._make_rule", "Exception"): "deliberate refusal: overriding needs a focus (immediate probe type)",
    ("utils.refstring", "TypeError"): "refstring() of an object without module/qualname (not a selector path)",
    ("utils.refstring", "CodeNotFoundError"): "documented",
}
# sites that no input can reach, one reason each
INFEASIBLE = {
    "opparse.Parser.process:raise AssertionError when [order != 'done', order != 0, order <= 0, order >= 0]": "the order is a difference of finite priorities or +/-inf (never NaN: the both-None case returns 'done' first), so one of >0, <0, ==0 holds",
    "selector._resolve:inspect.getfullargspec(real_fn)": "raises TypeError for a callable that is not a Python function: the documented outcome for objects that cannot be instrumented",
    "opparse.ASTNode.__init__:assert nonnulls": "finalize() only builds a node from parts that contain at least one operator token",
    "selector._find_eval_env:raise AssertionError when []": "the frame walk always ends in the caller's frame, which is outside the skipped modules",
    "selector.dict_resolver.resolve:getattr(tag_factory, x[1:])": "_TagFactory.__getattr__ creates the tag on demand and never raises",
}

# index / unpack sites whose safety is not visible in a local guard, one reason each
INDEX_REASONS = {
    "opparse.ASTNode.__init__:nonnulls[0]": "non-empty: asserted just above, and finalize() never passes parts without an operator token",
    "opparse.ASTNode.__init__:nonnulls[-1]": "non-empty (see nonnulls[0])",
    "opparse.Parser.process:current[-1]": "a handle always holds at least [operand, operator]",
    "selector.Call.problems:*['annotation']": "rows of __ptera_info__ are built by transform() with a fixed key set (whatever the row is called)",
    "selector.Evaluator.__call__:ast.ops[0]": "an ASTNode always has at least one operator (guarded by hasattr(ast, 'ops'))",
    "selector.InternedMC.__call__:cls._cache[key]": "the key was inserted just above when missing",
    "selector._find_eval_env:glb['__name__']": "module globals define __name__",
}


def _cond_nodes(node, fn):
    """The conditions of astq.conds(node, fn) parsed back to expression nodes (positive literals)."""
    out = []
    from ..astq import expand_literals
    plain = conds(node, fn)
    for c in plain + [x for x in expand_literals(plain, fn) if x not in plain]:        # a once-assigned flag also stands for its definition
        try:
            out.append((c, ast.parse(c, mode="eval").body))
        except SyntaxError:
            pass
    return out


def conversion_guard(repo, call, fi):
    """int(x) / float(x): among the conditions under which it runs (nested tests, guard clauses, short-circuits) there must
    be a *full* match of x against a purely numeric pattern."""
    var = norm(call.args[0])
    for text, t in _cond_nodes(call, fi.node):
        if isinstance(t, ast.Call) and isinstance(t.func, ast.Attribute) and t.func.attr == "fullmatch":
            pat = None
            if norm(t.func.value) == "re" and len(t.args) == 2 and norm(t.args[1]) == var and isinstance(t.args[0], ast.Constant):
                pat = t.args[0].value
            elif len(t.args) == 1 and norm(t.args[0]) == var and isinstance(t.func.value, ast.Name):
                try:
                    v = repo.module_assign(fi.module, t.func.value.id)
                    if isinstance(v, ast.Call) and norm(v.func) == "re.compile" and isinstance(v.args[0], ast.Constant):
                        pat = v.args[0].value
                except Exception:
                    pat = None
            if pat is not None and numeric_pattern(pat) in ({"int": ("int",), "float": ("int", "float")}[call.func.id]):
                return f"guarded by a full match of `{var}` against the numeric pattern {pat!r}"
    return None


def numeric_pattern(pat):
    """"int" when the regular expression has the form  -?DIGITS{1+,..} , "float" for  -?DIGITS{1+,..} . DIGITS{..}  (every string it accepts
    is then accepted by int() / float(): at least one digit before an optional-length fraction), None otherwise -- decided on the parsed
    pattern, item by item, lower bounds included."""
    import re._parser as sre
    try:
        items = list(sre.parse(pat))
    except Exception:
        return None

    def digits(it, lo, hi_unbounded):
        op, av = it
        if str(op) != "MAX_REPEAT":
            return False
        mn, mx, sub = av
        if mn < lo or len(sub) != 1:          # at least `lo` digits; fewer admitted strings are still numbers
            return False
        sop, sav = sub[0]
        if str(sop) == "IN":
            return [str(x) for x in sav] in (["(RANGE, (48, 57))"], ["(CATEGORY, CATEGORY_DIGIT)"])
        return False

    def lit(it, ch):
        return str(it[0]) == "LITERAL" and it[1] == ord(ch)
    k = 0
    if items and str(items[0][0]) == "MAX_REPEAT" and items[0][1][0] == 0 and items[0][1][1] == 1 and len(items[0][1][2]) == 1 and lit(items[0][1][2][0], "-"):
        k = 1
    rest = items[k:]
    if len(rest) == 1 and digits(rest[0], 1, True):
        return "int"
    if len(rest) == 3 and digits(rest[0], 1, True) and lit(rest[1], ".") and digits(rest[2], 0, True):
        return "float"
    return None


def index_guard(n, fn):
    """A syntactically visible reason why an index / unpack site cannot fail, or None.  Guards are looked up among the
    conditions under which the site runs (astq.conds), so nesting, guard clauses and short-circuits count alike."""
    cs = [c for c, _ in _cond_nodes(n, fn)]
    if isinstance(n, ast.Subscript):
        base, idx = norm(n.value), norm(n.slice)
        if isinstance(n.value, ast.Call) and isinstance(n.value.func, ast.Attribute) and n.value.func.attr == "split" and idx == "0":
            return "str.split() always returns at least one element"
        for c in cs:
            if c == f"{idx} in {base}":
                return f"guarded by `{c}`"
            if c.startswith((f"len({base}) == ", f"len({base}) > ", f"len({base}) >= ")):
                return f"guarded by `{c}`"
            if c == base and idx in ("0", "-1"):
                return f"the empty case leaves first (`{c}` holds here)"
        return None
    if isinstance(n, ast.Assign):
        tg = n.targets[0]
        starred = any(isinstance(e, ast.Starred) for e in tg.elts)
        fixed = len([e for e in tg.elts if not isinstance(e, ast.Starred)])
        v = n.value
        if isinstance(v, ast.Call) and isinstance(v.func, ast.Attribute) and v.func.attr == "split" and starred:
            if fixed <= 1:
                return "str.split() always returns at least one element"
            sep = norm(v.args[0]) if v.args else None
            want = f"{norm(v.func.value)}.startswith({sep})"
            if want in cs:
                return f"the string starts with the separator (`{want}`), so there are at least two parts"
            return None
        if isinstance(v, ast.Call) and norm(v.func) == "self.resolve":
            return "resolve() returns a priority pair"
        if isinstance(v, ast.Call) and norm(v.func) in ("self.get", "fits_selector"):
            return "fixed-size tuple"
        # (x,) = seq after explicit length tests on seq
        if isinstance(v, ast.Name):
            if v.id in cs and f"len({v.id}) <= {fixed}" in cs:
                return f"both the empty case and len({v.id}) > {fixed} leave before this point"
        return None
    return None


E_KINDS = {"Element", "Call", "list"}
V_KINDS = {"VSymbol", "VCall", "VKeyword", "list"}


def class_attrs(repo, qual):
    out = set()
    for c in repo.mro(qual):
        for n in repo.classes[c].body:
            if isinstance(n, ast.FunctionDef):
                out.add(n.name)
                if n.name == "__init__":
                    for a in ast.walk(n):
                        if isinstance(a, ast.Attribute) and isinstance(a.value, ast.Name) and a.value.id == "self" and isinstance(a.ctx, ast.Store):
                            out.add(a.attr)
            elif isinstance(n, ast.Assign):
                for t in n.targets:
                    if isinstance(t, ast.Name):
                        out.add(t.id)
    return out


def kind_names(node):
    if isinstance(node, ast.Tuple):
        out = set()
        for e in node.elts:
            out |= kind_names(e)
        return out
    if isinstance(node, ast.Name):
        return {node.id}
    return {norm(node)}


def field_requirements(repo, kinds):
    """{class: {field: {attr: where}}}: `<obj>.<field>.<attr>` is read somewhere in selector.py where <obj> is known to be an instance of
    <class> (self in a method of the class, or a name under an `isinstance(name, Class)` condition).  Whatever a constructor call puts in
    <field> must therefore have <attr>."""
    req = {}
    for q, fi in repo.functions.items():
        if fi.module != "selector":
            continue
        for n in walk_local(fi.node):
            if not (isinstance(n, ast.Attribute) and isinstance(n.ctx, ast.Load) and isinstance(n.value, ast.Attribute) and isinstance(n.value.value, ast.Name)):
                continue
            obj, field, attr = n.value.value.id, n.value.attr, n.attr
            owners = set()
            if obj == "self" and fi.cls and fi.cls.rsplit(".", 1)[-1] in kinds:
                owners.add(fi.cls.rsplit(".", 1)[-1])
            for c in conds(n, fi.node):
                for k in kinds:
                    if c == f"isinstance({obj}, {k})":
                        owners.add(k)
            for k in owners:
                req.setdefault(k, {}).setdefault(field, {}).setdefault(attr, f"{q}: {norm(n)}")
    return req


def init_params(repo, kind):
    for c in repo.mro("selector." + kind):
        for n in repo.classes[c].body:
            if isinstance(n, ast.FunctionDef) and n.name == "__init__":
                return [a.arg for a in n.args.args[1:]], {t.attr: norm(st.value) for st in n.body if isinstance(st, ast.Assign) for t in st.targets
                                                         if isinstance(t, ast.Attribute) and norm(t.value) == "self" and isinstance(st.value, ast.Name)}
    return [], {}


class KindFlow:
    """Flow-sensitive operand kinds inside one evaluation action."""

    requirements = None     # set by run(): {class: {field: {attr: where}}}

    def check_constructor(self, call, env):
        kind = norm(call.func)
        req = (self.requirements or {}).get(kind)
        if not req:
            return
        params, stored = init_params(self.repo, kind)
        given = dict(zip(params, call.args))
        given.update({k.arg: k.value for k in call.keywords if k.arg})
        for field, attrs in req.items():
            src = stored.get(field, field)
            if src not in given:
                continue
            ks = self.expr_kinds(given[src], env)
            if ks is None:
                continue
            for attr, where in attrs.items():
                self.checked += 1
                lacking = sorted(k for k in ks if attr not in self.attrs.get(k, set()))
                if lacking:
                    self.findings.append((f"{kind}({field}={norm(given[src])})", f"{field}.{attr}", lacking, call.lineno))

    def __init__(self, repo, attrs):
        self.repo, self.attrs = repo, attrs
        self.findings = []      # (var, attr, kinds lacking it, lineno)
        self.checked = 0

    def kinds_of_call(self, call, env):
        f = norm(call.func)
        if f in ("evaluate", "parse"):
            return set(E_KINDS)
        if f == "value_evaluate":
            return set(V_KINDS)
        if f == "_expect" and len(call.args) >= 3:
            base = self.expr_kinds(call.args[1], env)
            want = kind_names(call.args[2])
            return (base & want) if base is not None else want
        if f == "_guarantee_call":
            return {"Call"}
        if f in ("Element", "Call", "VSymbol", "VCall", "VKeyword"):
            return {f}
        if isinstance(call.func, ast.Attribute) and isinstance(call.func.value, ast.Name) and call.func.value.id in env:
            base = env[call.func.value.id]
            if call.func.attr in ("clone", "with_focus", "without_focus", "specialize"):
                return set(base) if base else None
        return None

    def expr_kinds(self, e, env):
        if isinstance(e, ast.Name):
            return env.get(e.id)
        if isinstance(e, ast.Call):
            return self.kinds_of_call(e, env)
        if isinstance(e, ast.IfExp):
            a, b = self.expr_kinds(e.body, self.narrow(e.test, env, True)), self.expr_kinds(e.orelse, self.narrow(e.test, env, False))
            if a is None or b is None:
                return None
            return a | b
        if isinstance(e, (ast.List, ast.ListComp)):
            return {"list"}
        return None

    def narrow(self, test, env, truth):
        env = dict(env)
        neg = False
        t = test
        while isinstance(t, ast.UnaryOp) and isinstance(t.op, ast.Not):
            neg = not neg
            t = t.operand
        if isinstance(t, ast.Call) and is_name(t.func, "isinstance") and isinstance(t.args[0], ast.Name) and t.args[0].id in env and env[t.args[0].id] is not None:
            ks = kind_names(t.args[1])
            v = t.args[0].id
            env[v] = (env[v] & ks) if (truth != neg) else (env[v] - ks)
        return env

    def check_expr(self, e, env):
        """Attribute uses on names of known kind; a comprehension over an operand known to be a sequence binds its variable to the kinds an
        element of an evaluated sequence may have (E_KINDS: `a, (b, c)` nests)."""
        if isinstance(e, (ast.GeneratorExp, ast.ListComp, ast.SetComp, ast.DictComp)):
            inner = dict(env)
            for g in e.generators:
                self.check_expr(g.iter, inner)
                ik = self.expr_kinds(g.iter, inner)
                for t in ast.walk(g.target):
                    if isinstance(t, ast.Name):
                        inner[t.id] = set(E_KINDS) if (ik and "list" in ik and t is g.target) else None
                for c in g.ifs:
                    self.check_expr(c, inner)
                    inner = self.narrow(c, inner, True)
            for part in ([e.key, e.value] if isinstance(e, ast.DictComp) else [e.elt]):
                self.check_expr(part, inner)
            return
        if isinstance(e, ast.Call) and isinstance(e.func, ast.Name):
            self.check_constructor(e, env)
        if isinstance(e, ast.Attribute) and isinstance(e.value, ast.Name) and e.value.id in env and env[e.value.id] is not None and isinstance(e.ctx, ast.Load):
            self.checked += 1
            lacking = sorted(k for k in env[e.value.id] if e.attr not in self.attrs.get(k, set()))
            if lacking:
                self.findings.append((e.value.id, e.attr, lacking, e.lineno))
        if isinstance(e, ast.IfExp):
            self.check_expr(e.test, env)
            self.check_expr(e.body, self.narrow(e.test, env, True))
            self.check_expr(e.orelse, self.narrow(e.test, env, False))
            return
        if isinstance(e, ast.BoolOp):
            cur = env
            for v in e.values:
                self.check_expr(v, cur)
                cur = self.narrow(v, cur, isinstance(e.op, ast.And))
            return
        if isinstance(e, ast.Lambda):
            return
        for child in ast.iter_child_nodes(e):
            if isinstance(child, (ast.expr, ast.keyword, ast.comprehension, ast.FormattedValue)):
                self.check_expr(child if not isinstance(child, ast.keyword) else child.value, env)

    def block(self, stmts, env):
        """-> env after the block, or None when every path returned/raised."""
        for st in stmts:
            if isinstance(st, ast.Assign) and len(st.targets) == 1 and isinstance(st.targets[0], ast.Name):
                if isinstance(st.value, ast.IfExp):
                    self.check_expr(st.value.test, env)
                    self.check_expr(st.value.body, self.narrow(st.value.test, env, True))
                    self.check_expr(st.value.orelse, self.narrow(st.value.test, env, False))
                else:
                    self.check_expr(st.value, env)
                env = dict(env)
                env[st.targets[0].id] = self.expr_kinds(st.value, env)
            elif isinstance(st, ast.If):
                self.check_expr(st.test, env)
                a = self.block(st.body, self.narrow(st.test, env, True))
                b = self.block(st.orelse, self.narrow(st.test, env, False))
                if a is None and b is None:
                    return None
                if a is None:
                    env = b
                elif b is None:
                    env = a
                else:
                    env = {k: (None if a.get(k) is None or b.get(k) is None else a[k] | b[k]) for k in set(a) | set(b)}
            elif isinstance(st, (ast.Return, ast.Raise)):
                if getattr(st, "value", None) is not None:
                    self.check_expr(st.value, env)
                if isinstance(st, ast.Raise) and st.exc is not None:
                    self.check_expr(st.exc, env)
                return None
            elif isinstance(st, ast.Assert):
                self.check_expr(st.test, env)
                env = self.narrow(st.test, env, True)
            else:
                for child in ast.iter_child_nodes(st):
                    if isinstance(child, ast.expr):
                        self.check_expr(child, env)
        return env


def run(repo, chk):
    chk.explanation = (
        "Decides the structural clauses of C18 on the selector front end, for every input string at once. (R18.1) Exception escape: over the "
        "resolved call graph from parse(), select() and Probe.__init__, every assert, every raise of a class other than SyntaxError / "
        "SelectorError / CodeNotFoundError / the documented TypeError, ValueError and refusals, and every external call known to raise on "
        "user-controlled arguments, is listed unless it is caught; each must be absent or carry a one-line infeasibility reason. (R18.2) "
        "Operand-kind flow: the result of evaluating a sub-expression is one of {Element, Call, list}; inside every evaluation action the "
        "kinds are narrowed by isinstance tests and _expect checks, and every attribute used on an operand must exist on all kinds still "
        "possible there. (R18.3) The refusal checks (focus pattern, overriding without focus, category not a tag, verification) are on the "
        "path of probe construction / activation. Termination is argued by a variant (every lexer / parser loop iteration consumes a token or "
        "pops the stack), not proved.")
    chk.not_decided += ["termination beyond the stated loop variants", "exceptions raised by user-supplied functions inside selector values (x=f(1), x~pred)"]
    chk.assumptions += ["callee resolution as in sa/callgraph.py (resolution statistics are in `analysed`)", "external calls outside EXTERNAL_RAISES do not raise on selector input"]
    chk.rule("R18.1", "exception escape: no assert / undocumented exception class / raising external call is reachable uncaught from parse, select or Probe()", 20)
    chk.rule("R18.2", "operand-kind flow: every attribute used on the result of evaluate()/value_evaluate() exists on all operand kinds still possible at that point", 10)
    chk.rule("R18.3", "refusal checks are reached: focus pattern, overriding without focus, category not a tag, unknown meta variable, unresolvable name", 8)
    chk.rule("R18.4", "loop variants: every iteration of the lexer / parser loops consumes input or shrinks the stack", 3)

    cg = CallGraph(repo)
    chk.analysed["call_resolution"] = cg.stats
    # reachable set
    reach, stack = set(), list(ENTRIES)
    for e in ENTRIES:
        repo.func(e)
    while stack:
        q = stack.pop()
        if q in reach:
            continue
        reach.add(q)
        for c, callees, ext, how in cg.edges[q]:
            stack.extend(callees)
        for q2, f2 in repo.functions.items():
            if f2.parent is not None and f2.parent.qual == q:
                stack.append(q2)
    # refstring is a utility, not part of compiling a selector string
    reach = {q for q in reach if not q.startswith(("transform.", "interpret.", "overlay.HandlerCollection", "overlay.proceed", "overlay.BaseOverlay.__enter__"))}
    chk.analysed["functions reachable from parse/select/Probe()"] = len(reach)

    # ---------------- R18.1
    for q in sorted(reach):
        fi = repo.functions[q]
        for n in walk_local(fi.node):
            site = None
            if isinstance(n, ast.Assert):
                site = ("AssertionError", f"assert {norm(n.test)}")
            elif isinstance(n, ast.Raise) and n.exc is not None:
                c = cg.raised_class(n, fi)
                if c not in ALLOWED:
                    # keyed by class and path condition, not by the wording of the message
                    site = (c, f"raise {c} when [{', '.join(sorted(conds(n, fi.node)))}]")
            if site is None:
                continue
            cls, text = site
            if cg._caught(n, fi, cls):
                continue
            key = f"{q}:{text}"
            if (q, cls) in DOCUMENTED:
                chk.ob("R18.1", f"{q}:{cls}:documented", True, fi.where, f"`{text}` is a documented refusal: {DOCUMENTED[(q, cls)]}")
            elif key in INFEASIBLE:
                chk.ob("R18.1", f"{key}:infeasible", True, fi.where, f"`{text}` cannot be reached by any input: {INFEASIBLE[key]}")
            else:
                chk.ob("R18.1", key, False, f"ptera/{fi.module}.py:{n.lineno}",
                       f"`{text}` ({cls}) is reachable from the selector front end and not caught: a malformed selector can fail with an internal error instead of a syntax / selector error")
        for c, callees, ext, how in cg.edges[q]:
            for cls in cg.external_raises(ext, c):
                if cls in ALLOWED or cg._caught(c, fi, cls):
                    continue
                key = f"{q}:{norm(c)[:60]}"
                if key in INFEASIBLE:
                    chk.ob("R18.1", f"{key}:infeasible", True, fi.where, f"`{norm(c)[:60]}` cannot raise here: {INFEASIBLE[key]}")
                else:
                    chk.ob("R18.1", f"{key}:{cls}", False, f"ptera/{fi.module}.py:{c.lineno}",
                           f"`{norm(c)[:70]}` may raise {cls} on a user-controlled argument and nothing converts it into a selector error")
        chk.ob("R18.1", f"{q}:scanned", True, fi.where, "function scanned for escaping internal errors", nontrivial=False)
    # index / unpack sites: guarded, or carrying a reason
    for q in sorted(reach):
        fi = repo.functions[q]
        for n in walk_local(fi.node):
            site = None
            if isinstance(n, ast.Subscript) and isinstance(n.ctx, ast.Load) and not isinstance(n.slice, ast.Slice):
                site = norm(n)
            elif isinstance(n, ast.Assign) and isinstance(n.targets[0], (ast.Tuple, ast.List)) and not isinstance(n.value, (ast.Tuple, ast.List)):
                site = norm(n)[:80]
            if site is None:
                continue
            why = index_guard(n, fi.node)
            key = f"{q}:{site}"
            if why is None and key in INDEX_REASONS:
                why = INDEX_REASONS[key]
            if why is None and isinstance(n, ast.Subscript) and isinstance(n.slice, ast.Constant) and isinstance(n.slice.value, str) and isinstance(n.value, ast.Name):
                why = INDEX_REASONS.get(f"{q}:*[{n.slice.value!r}]")      # a constant key of a row whose name does not matter
            chk.ob("R18.1", f"{key}:index-or-unpack", why is not None, f"ptera/{fi.module}.py:{n.lineno}",
                   f"`{site}` cannot fail: {why}" if why else f"`{site}` may raise IndexError/KeyError/ValueError on a user-controlled value: no length/membership guard on the path and no recorded reason")
    # numeric conversions of selector words
    n_conv = 0
    for q in sorted(reach):
        fi = repo.functions[q]
        for n in walk_local(fi.node):
            if isinstance(n, ast.Call) and isinstance(n.func, ast.Name) and n.func.id in ("int", "float") and len(n.args) == 1 and not n.keywords \
                    and not isinstance(n.args[0], ast.Constant):
                n_conv += 1
                why = conversion_guard(repo, n, fi)
                chk.ob("R18.1", f"{q}:{norm(n)}:conversion-guarded", why is not None, f"ptera/{fi.module}.py:{n.lineno}",
                       f"`{norm(n)}` cannot fail: {why}" if why else
                       f"`{norm(n)}` may raise ValueError: the word is not guaranteed to be a complete numeric literal (needs re.fullmatch with a purely numeric pattern on the same variable)")
    if n_conv < 2:
        raise AnalysisError(f"only {n_conv} int()/float() conversions of selector words found (confirmed by hand: 2 in VSymbol.eval)")
    # syntax errors carry a position
    se = repo.func("opparse.Location.syntax_error")
    fse = facts_of(se)
    errs = [e for e in fse.bound_to("SyntaxError(msg)") if fse.has(f"return {e}", exactly=[])]
    chk.ob("R18.1", "opparse.Location.syntax_error:carries-position", len(errs) == 1 and fse.has(f"{errs[0]}.offset = self.start + 1", exactly=[]), se.where,
           "syntax errors carry the offending position")
    ev = repo.func("selector.Evaluator.__call__")
    fev = Facts(ev.node)
    acts = fev.bound_to("self.actions.get(key, None)") + fev.bound_to("self.actions.get(key)")
    act = acts[0] if len(acts) == 1 else "<no single name bound to self.actions.get(key)>"
    applied = [c for t, c, n in fev.items if isinstance(n, ast.Call) and is_name(n.func, act)]
    ok = any(t.startswith("raise ") and ".location.syntax_error(" in t and f"{act} is None" in c for t, c, _ in fev.items) \
        and bool(applied) and all(f"{act} is not None" in c for c in applied)
    chk.ob("R18.1", "selector.Evaluator.__call__:unknown-operator-is-a-syntax-error", ok, ev.where,
           "an operator shape without a registered action is reported as a located syntax error")
    rs = repo.func("opparse.OperatorPrecedenceTower.resolve")
    frs = facts_of(rs)
    known = ["op.value in self.operators", "f': {op.type}' in self.operators"]
    ok = ends_in_jump(rs.node.body) and any(isinstance(n, ast.Raise) and not set(known) & set(c) for t, c, n in frs.starting("raise op.location.syntax_error(")) \
        and all(isinstance(n, (ast.Return, ast.Raise)) or not isinstance(n, ast.stmt) or isinstance(n, ast.Expr) or (isinstance(n, ast.Assign) and all(isinstance(t_, ast.Name) for t_ in n.targets))
                for _, _, n in frs.items)
    chk.ob("R18.1", "opparse.OperatorPrecedenceTower.resolve:unknown-token-is-a-syntax-error", ok, rs.where,
           "a token without priority (stray character, unknown type) is reported as a located syntax error")

    # the lexer never drops input silently and keeps positions
    lx0 = repo.func("opparse.Lexer.__call__")
    wl0 = [n for n in walk_local(lx0.node) if isinstance(n, ast.While)]
    fallback = False
    pos_ok = False
    if wl0:
        fors = [n for n in ast.walk(wl0[0]) if isinstance(n, ast.For) and n.orelse]
        for f_ in fors:
            for c in ast.walk(ast.Module(body=f_.orelse, type_ignores=[])):
                if isinstance(c, ast.Call) and norm(c.func) == "tokens.append" and c.args and isinstance(c.args[0], ast.Call) and norm(c.args[0].func) == "Token":
                    ty = kwarg(c.args[0], "type")
                    fallback = fallback or (isinstance(ty, ast.Constant) and ty.value is None)
        # by how much the offset advances, whatever the spelling (`current += n`, `current = current + n`, through a temporary)
        steps = []
        for n in ast.walk(wl0[0]):
            if isinstance(n, ast.AugAssign) and norm(n.target) == "current" and isinstance(n.op, ast.Add):
                steps.append(expand(n.value, lx0.node))
            elif isinstance(n, ast.Assign) and len(n.targets) == 1 and norm(n.targets[0]) == "current":
                v = ast.parse(expand(n.value, lx0.node), mode="eval").body
                if isinstance(v, ast.Name):
                    # a temporary computed earlier in the same block from the offset (`end = current + k; ...; current = end`), the offset untouched in between
                    blk = getattr(n, "_parent", None)
                    body_ = next((b for b in (getattr(blk, "body", None), getattr(blk, "orelse", None)) if isinstance(b, list) and n in b), None)
                    if body_ is not None:
                        before = body_[:body_.index(n)]
                        defs_ = [d for d in before if isinstance(d, ast.Assign) and len(d.targets) == 1 and is_name(d.targets[0], v.id)]
                        if len(defs_) == 1 and not any(isinstance(x, ast.Name) and x.id == "current" and isinstance(x.ctx, ast.Store)
                                                       for d in before[before.index(defs_[0]) + 1:] for x in ast.walk(d)):
                            v = ast.parse(expand(defs_[0].value, lx0.node), mode="eval").body
                if isinstance(v, ast.BinOp) and isinstance(v.op, ast.Add) and norm(v.left) == "current":
                    steps.append(norm(v.right))
                else:
                    steps.append(f"<{norm(v)}>")
        starts = [expand(kwarg(c, "start"), lx0.node) for c in ast.walk(wl0[0]) if isinstance(c, ast.Call) and norm(c.func) == "Token" and kwarg(c, "start") is not None]
        pos_ok = sorted(steps) == ["1", "m.end()"] and starts == ["current", "current"]
    chk.ob("R18.1", "opparse.Lexer.__call__:unmatched-character-becomes-a-token", fallback, lx0.where,
           "a character that no pattern matches becomes a token of type None (which the precedence tower refuses with a located syntax error) instead of being skipped silently")
    chk.ob("R18.1", "opparse.Lexer.__call__:positions-tracked", pos_ok, lx0.where, "every token records the offset at which it starts (syntax errors point at the offending position)")
    an0 = repo.func("opparse.ASTNode.__init__")
    chk.ob("R18.1", "opparse.ASTNode.__init__:has-location", any(isinstance(n, ast.Assign) and norm(n.targets[0]) == "self.location" for n in walk_local(an0.node)), an0.where,
           "every parse node carries a location: the operand checks of the evaluation actions raise `node.location.syntax_error(...)`")
    # ---------------- R18.2
    attrs = {"Element": class_attrs(repo, "selector.Element"), "Call": class_attrs(repo, "selector.Call"), "list": set(dir(list)), "str": set(dir(str)),
             "VSymbol": class_attrs(repo, "selector.VSymbol"), "VCall": class_attrs(repo, "selector.VCall"), "VKeyword": class_attrs(repo, "selector.VKeyword")}
    KindFlow.requirements = field_requirements(repo, set(attrs) - {"list", "str"})
    chk.analysed["constructor field requirements (class.field needs attr)"] = sorted(f"{k}.{f}.{a}" for k, fs in KindFlow.requirements.items() for f, as_ in fs.items() for a in as_)
    actions = [fi for q, fi in repo.functions.items() if fi.module == "selector" and
               any(isinstance(d, ast.Call) and isinstance(d.func, ast.Attribute) and d.func.attr == "register_action" for d in fi.node.decorator_list)]
    for fi in sorted(actions, key=lambda f: f.qual) + [repo.func("selector._guarantee_call"), repo.func("selector._select")]:
        kf = KindFlow(repo, attrs)
        env = {}
        if fi.qual == "selector._guarantee_call":
            # the operand parameter is the one the function tests with isinstance(<p>, Call) (whatever its position in the signature)
            tested = [norm(c.args[0]) for c in ast.walk(fi.node) if isinstance(c, ast.Call) and is_name(c.func, "isinstance") and len(c.args) == 2 and isinstance(c.args[0], ast.Name)]
            pnames = [a.arg for a in fi.node.args.posonlyargs + fi.node.args.args + fi.node.args.kwonlyargs]
            operand = next((t for t in tested if t in pnames), pnames[1] if len(pnames) > 1 else None)
            env = {operand: set(E_KINDS)} if operand else {}
        if fi.qual == "selector._select":
            # a string, or what parsing a string gives; anything else is the caller's own object (refused by the isinstance test)
            env = {fi.node.args.args[0].arg: {"str"} | set(E_KINDS)}
        kf.block(fi.node.body, env)
        chk.count("attribute uses on operands checked", kf.checked)
        if kf.findings:
            for var, attr, lacking, ln in kf.findings:
                chk.ob("R18.2", f"{fi.qual}:{var}.{attr}:missing-on[{','.join(lacking)}]", False, f"ptera/selector.py:{ln}",
                       f"`{var}.{attr}` is used where `{var}` may still be a {' / '.join(lacking)} (no isinstance or _expect check on that path): AttributeError on a malformed selector")
        else:
            chk.ob("R18.2", f"{fi.qual}:operand-kinds", True, fi.where, f"every attribute used on an operand exists on all kinds possible there ({kf.checked} uses)")
    from .shared import call_extension_obligations
    call_extension_obligations(repo, chk, "R18.2")
    # grammar side of the same flow: `make_equals` stores value_evaluate(<right operand>) in Element.value unchecked, and _resolve calls .eval on it.  Only VSymbol / VCall
    # have .eval; the operators whose value action yields something else (`=` -> VKeyword, `,` -> list) must therefore never end up INSIDE the right operand of `=` / `~`:
    # after `=` / `~`, each of them has to close the handle (negative order), so `x=1=2` groups as `(x=1)=2` and `f(x=1, y)` as `f((x=1), y)`.
    from .c15 import extract_tower, sign as _sign
    table_, _lex = extract_tower(repo)
    for l_ in ("=", "~"):
        for r_ in ("=", "~", ","):
            got_ = _sign(table_, l_, r_)
            chk.ob("R18.2", f"tower:{l_!r}-then-{r_!r}:closes", got_ == "-", "ptera/selector.py (parser = ...)",
                   f"`{r_}` after `{l_}` closes the value (order {got_}): the right operand of `{l_}` is a symbol or a call, never a keyword / sequence "
                   "(which have no .eval: AttributeError out of select() instead of a syntax error)")
    # the kind universe itself: what the actions return
    bad_ret = []
    for fi in actions:
        kf = KindFlow(repo, attrs)
        # returns are judged with the environment at the end of straight-line code: use a coarse pass over all returns
        for r in returns_of(fi.node):
            if isinstance(r.value, (ast.List,)):
                continue
    # fixtures
    fx = parse_fixture("def make_class(node, element, tag, context):\n    element = evaluate(element, context=context)\n    return element.clone(category=tag)\n").body[0]
    kf = KindFlow(repo, attrs)
    kf.block(fx.body, {})
    chk.fixture("R18.2", "clone on an unchecked operand", True, bool(kf.findings))
    fx = parse_fixture("def vmake_keyword(node, key, value, context):\n    key = value_evaluate(key)\n    value = value_evaluate(value)\n    return VKeyword(key, value)\n").body[0]
    kf = KindFlow(repo, attrs)
    kf.block(fx.body, {})
    chk.fixture("R18.2", "a keyword built from an unchecked key (VCall.eval reads arg.key.value)", True, bool(kf.findings))
    fx = parse_fixture("def f(selector):\n    selector = parse(selector)\n    if not isinstance(selector, Call):\n        raise SelectorError(', '.join(p.encode() for p in selector))\n    return selector\n").body[0]
    kf = KindFlow(repo, attrs)
    kf.block(fx.body, {})
    chk.fixture("R18.2", "attribute of an element of an evaluated sequence while building the refusal", True, bool(kf.findings))
    fx = parse_fixture("def make_class(node, element, tag, context):\n    element = evaluate(element, context=context)\n    element = _expect(node, element, Element, 'x')\n    return element.clone(category=tag)\n").body[0]
    kf = KindFlow(repo, attrs)
    kf.block(fx.body, {})
    chk.fixture("R18.2", "clone after _expect(Element)", False, bool(kf.findings))

    # ---------------- R18.3
    pi = repo.func("probe.Probe.__init__")
    fpi = facts_of(pi)
    chk.ob("R18.3", "probe.Probe.__init__:every-selector-compiled", fpi.has("self._selectors = [select(s, env=env) for s in selectors]", when=["selectors"]), pi.where,
           "every selector string is compiled when the probe is created")
    stored = [expand(n.value, pi.node) for n in walk_local(pi.node) if isinstance(n, ast.Assign) and len(n.targets) == 1 and norm(n.targets[0]) == "self._selectors"]
    ruled = [n for n in walk_local(pi.node) if isinstance(n, (ast.ListComp, ast.GeneratorExp)) and len(n.generators) == 1 and not n.generators[0].ifs
             and isinstance(n.elt, ast.Call) and norm(n.elt.func) == "self._make_rule" and n.elt.args and isinstance(n.generators[0].target, ast.Name)
             and is_name(n.elt.args[0], n.generators[0].target.id)
             and expand(n.generators[0].iter, pi.node) in ["self._selectors"] + stored]
    chk.ob("R18.3", "probe.Probe.__init__:every-selector-gets-a-rule", len(stored) == 1 and len(ruled) == 1, pi.where,
           "every compiled selector goes through _make_rule (focus checks) at construction")
    from .shared import call_aggregate_obligations
    call_aggregate_obligations(repo, chk, "R18.3", ["all_tags", "valid", "main", "focus"], "the focus-pattern and validity refusals see a focus written anywhere on the call path")
    me = repo.func("probe.Probe._make_emitter")
    fme = facts_of(me)
    T = (fme.bound_to("set(sel.all_tags)") or ["set(sel.all_tags)"])[0]
    refused = [c for _, c, n in fme.starting("raise ValueError(") if isinstance(n, ast.Raise)]
    plain_only = [[f"not {T} or {T} == {{1}}"], [f"{T} <= {{1}}"], [f"{T} in ({{1}}, set())"], [f"{T} in (set(), {{1}})"]]      # spellings of "no focus tag, or tag 1 only"
    ok = any(fme.has("return self._emit", exactly=alt) for alt in plain_only) and len(fme.find("return self._emit")) == 1 \
        and fme.has("return self._emit2", when=[f"{T} == {{1, 2}}"]) and len(fme.find("return self._emit2")) == 1 and len(refused) == 1 \
        and ({T, f"{T} != {{1}}", f"{T} != {{1, 2}}"} <= set(refused[0]) or {f"not {T} <= {{1}}", f"{T} != {{1, 2}}"} <= set(refused[0]) or {f"{T} > {{1}}", f"{T} != {{1, 2}}"} <= set(refused[0])) \
        and ends_in_jump(me.node.body)
    chk.ob("R18.3", "probe.Probe._make_emitter:focus-pattern-check", ok, me.where,
           "focus patterns other than none / ! / ! with !! (e.g. !! alone) are refused with ValueError")
    for cls in ("probe.Probe", "probe.OverridableProbe"):
        mr = repo.func(f"{cls}._make_rule")
        chk.ob("R18.3", f"{cls}._make_rule:reaches-_make_emitter", facts_of(mr).mentions("self._make_emitter(sel)"), mr.where, "the rule is built around the checked emitter")
    om = repo.func("probe.OverridableProbe._make_rule")
    fom = facts_of(om)
    made = [c for _, c, n in fom.starting("return Immediate(") if isinstance(n, ast.Return)]
    ok = ends_in_jump(om.node.body) and bool(made) and all("probe_type == 'immediate' or sel.focus" in c for c in made) \
        and any(isinstance(n, ast.Raise) for _, _, n in fom.items) and len([r for r in returns_of(om.node)]) == len(made)
    chk.ob("R18.3", "probe.OverridableProbe._make_rule:refuses-focus-free", ok, om.where, "an overridable probe on a selector without focus is refused at construction")
    rv = repo.func("selector._resolve")
    frv = facts_of(rv)
    cat = (frv.bound_to("_eval(selector.category, env)") or ["_eval(selector.category, env)"])[0]
    ok = any(isinstance(n, ast.Raise) and {f"{cat} is not None", f"not isinstance({cat}, Tag)"} <= set(c) for _, c, n in frv.starting("raise TypeError("))
    chk.ob("R18.3", "selector._resolve:category-must-be-a-tag", ok, rv.where,
           "a category that is not a tag is refused with the documented TypeError")
    dr = repo.func("selector.dict_resolver.resolve")
    fdr = facts_of(dr)
    ok = any(isinstance(n, ast.Raise) and "start not in env" in c for _, c, n in fdr.starting("raise SelectorError("))
    chk.ob("R18.3", "selector.dict_resolver.resolve:unresolvable-name", ok, dr.where, "an unknown function name is refused with SelectorError")
    sl = repo.func("selector._select")
    fsl = facts_of(sl)
    ok = any(isinstance(n, ast.Raise) and "not isinstance(selector, Call)" in c for _, c, n in fsl.starting("raise SelectorError(")) \
        and all("isinstance(selector, Call)" in c for _, c, n in fsl.starting("return ") if isinstance(n, ast.Return))
    chk.ob("R18.3", "selector._select:single-call-path", ok, sl.where,
           "a selector that is not a single call path (a comma sequence) is refused with SelectorError")
    pr = repo.func("selector.Call.problems")
    ok = any("x.name not in _valid_hashvars" in c and "x.name.startswith('#')" in c for _, c, n in facts_of(pr).starting("problems.append("))
    chk.ob("R18.3", "selector.Call.problems:unknown-meta-variable", ok, pr.where, "an unknown #meta variable is reported at verification (activation)")
    at = repo.func("overlay.autotool")
    from .shared import tag_table_read_obligations
    tag_table_read_obligations(repo, chk, "R18.3", "a selector with a second focus and no first one is refused every time it is compiled, not only the first time")
    chk.ob("R18.3", "overlay.autotool:verify-reached", any(isinstance(c, ast.Call) and is_name(c.func, "verify") for c in ast.walk(at.node)), at.where, "activation verifies the selector (see C10 R10.5)")

    # ---------------- R18.4
    lx = repo.func("opparse.Lexer.__call__")
    wl = [n for n in walk_local(lx.node) if isinstance(n, ast.While)]
    ok = len(wl) == 1 and norm(wl[0].test) in ("code", "len(code) > 0", "len(code) != 0", "len(code) >= 1", "code != ''")
    if ok:
        shrinks = [expand(n, lx.node) for n in ast.walk(wl[0]) if isinstance(n, ast.Assign) and norm(n.targets[0]) == "code"]
        ok = sorted(shrinks) == sorted(["code = code[m.end():]", "code = code[1:]"])
    chk.ob("R18.4", "opparse.Lexer.__call__:consumes-input", ok, lx.where,
           "every iteration of the lexer loop drops a matched prefix or one character (a match of length 0 cannot occur: every alternative requires at least one character)")
    import re._parser as sre
    val = repo.module_assign("selector", "parser")
    lexer = kwarg(val, "lexer")
    pats = [k.value for k in lexer.args[0].keys] if isinstance(lexer, ast.Call) and lexer.args and isinstance(lexer.args[0], ast.Dict) else []
    widths = [sre.parse(p).getwidth()[0] for p in pats]
    chk.ob("R18.4", "selector.parser:lexer:no-empty-match", bool(pats) and all(w >= 1 for w in widths), "ptera/selector.py (parser = ...)",
           f"every token pattern matches at least one character (minimum widths {widths}), so the lexer always makes progress")
    pp = repo.func("opparse.Parser.process")
    from ..cfg import CFG
    gpp = CFG(pp.node, lambda s_: isinstance(s_, (ast.Raise, ast.Assert)))
    heads = [n for n in gpp.nodes if n.kind == "test" and isinstance(n.stmt, ast.While)]
    progress = [n for n in gpp.nodes if n.kind == "stmt" and n.stmt is not None and any(isinstance(c, ast.Call) and (norm(c.func) == "stack.pop" or norm(c.func).endswith(".pop") and isinstance(getattr(c, "_parent", None), ast.IfExp) and norm(c._parent.test) == norm(c.func)[:-4]) for c in ast.walk(n.stmt))
                and any(n.stmt is x for h in heads for x in ast.walk(h.stmt))]
    # no way around the loop without taking a token or popping the handle stack; and the loop can be left by a return
    ok = len(heads) == 1 and bool(progress) and not any(gpp.path_exists(m, heads[0], avoid=progress, labels=("n", "t", "f")) for m, lab in heads[0].succ if lab == "t") \
        and any(isinstance(x, ast.Return) for x in ast.walk(heads[0].stmt))
    chk.ob("R18.4", "opparse.Parser.process:variant", ok, pp.where,
           "every iteration of the parser loop consumes a token (open / merge) or pops the handle stack (close); it returns when both sides are exhausted")
