"""C12 - value conditions filter exactly: comparison table of the stock predicates and the one-guard rule."""
import ast

from ..astq import expand, OPNAME, calls_named, compare_normal, conds, decision_list, ends_in_jump, split_tests, is_name, is_self_attr, kwarg, parse_fixture, returns_of, returns_with_conds
from ..core import AnalysisError, norm, walk_local

EXPECT = {"lt": ast.Lt, "gt": ast.Gt, "lte": ast.LtE, "gte": ast.GtE}


def predicate_of(fn):
    """(param of the returned predicate, its body expression, factory params) for `def lt(end): return lambda x: ...`."""
    rets = returns_of(fn)
    if len(rets) != 1 or rets[0].value is None:
        raise AnalysisError(f"tools.{fn.name}: expected exactly one return of a predicate")
    v = rets[0].value
    if isinstance(v, ast.Lambda) and len(v.args.args) == 1:
        return v.args.args[0].arg, v.body
    if isinstance(v, ast.Name):
        for n in fn.body:
            if isinstance(n, ast.FunctionDef) and n.name == v.id and len(n.args.args) == 1:
                r = returns_of(n)
                if len(r) == 1 and r[0].value is not None and len(n.body) == 1:
                    return n.args.args[0].arg, r[0].value
    raise AnalysisError(f"tools.{fn.name}: returned predicate is not a one-parameter lambda/def (shape not recognised)")


def judge_comparison(fn):
    """-> (ok, description)"""
    x, body = predicate_of(fn)
    bound = [a.arg for a in fn.args.args]
    if len(bound) != 1:
        raise AnalysisError(f"tools.{fn.name}: expected one bound parameter")
    res = compare_normal(body, lambda n: is_name(n, x))
    if res is None:
        return False, f"body `{norm(body)}` is not a single comparison of its argument"
    op, other = res
    if not is_name(other, bound[0]):
        return False, f"compares its argument with `{norm(other)}` instead of the bound `{bound[0]}`"
    want = EXPECT[fn.name]
    return op is want, f"x {OPNAME[op]} {bound[0]} (name states x {OPNAME[want]} {bound[0]})"


def range_decisions(call_fn):
    """Range.__call__ read as an ordered decision list (astq.decision_list): the leading `False` entries are the
    rejections [(field, guard_ok, op)], what follows is the acceptance tail [(literal texts, value node)]."""
    val = call_fn.args.args[1].arg if len(call_fn.args.args) == 2 else None
    if val is None:
        raise AnalysisError("tools.Range.__call__: expected (self, value)")
    entries, impure = decision_list(call_fn)
    rej, tail, extra = [], [], []
    leading = True
    for tests, v in entries:
        is_false = isinstance(v, ast.Constant) and v.value is False
        if not (leading and is_false):
            leading = False
            tail.append((split_tests(tests), v))
            continue
        parts = []
        for t, pos in tests:
            if not pos:
                raise AnalysisError(f"tools.Range.__call__: rejection under a negated test `{norm(t)}` not recognised")
            parts += t.values if isinstance(t, ast.BoolOp) and isinstance(t.op, ast.And) else [t]
        guard_field, cmp = None, None
        for p in parts:
            g = compare_normal(p, lambda n: is_self_attr(n))
            c = compare_normal(p, lambda n: is_name(n, val))
            if c is not None and is_self_attr(c[1]):
                cmp = (c[0], c[1].attr)
            elif g is not None and isinstance(g[1], ast.Constant) and g[1].value is None and g[0] is ast.IsNot:
                guard_field = [x for x in ast.walk(p) if is_self_attr(x)][0].attr
            elif is_self_attr(p) or (isinstance(p, ast.UnaryOp) and is_self_attr(p.operand)):
                guard_field = f"<truthiness of {norm(p)}>"      # `if self.start and ...` skips the bound when it is 0
            else:
                raise AnalysisError(f"tools.Range.__call__: condition `{norm(p)}` not recognised")
        if cmp is None:
            raise AnalysisError(f"tools.Range.__call__: rejection `{[norm(t) for t, _ in tests]}` has no comparison on the value")
        rej.append((cmp[1], guard_field == cmp[1], cmp[0]))
    return val, rej, tail, impure


def linear_form(e, val):
    """Coefficients {atom: int} of an integer-linear expression over value / self.start / self.modulo (None if not linear).
    `self.start or 0` is the atom start (it only differs from start when start is None, where 0 is what the property states);
    abs(x) is kept as x: |x| is divisible by m exactly when x is."""
    if isinstance(e, ast.Constant) and isinstance(e.value, int) and not isinstance(e.value, bool):
        return {"1": e.value}
    if isinstance(e, ast.Name) and e.id == val:
        return {"value": 1}
    if is_self_attr(e, "start"):
        return {"start": 1}
    if is_self_attr(e, "modulo"):
        return {"modulo": 1}
    if isinstance(e, ast.BoolOp) and isinstance(e.op, ast.Or) and len(e.values) == 2 and is_self_attr(e.values[0], "start") \
            and isinstance(e.values[1], ast.Constant) and e.values[1].value == 0:
        return {"start": 1}
    if isinstance(e, ast.Call) and is_name(e.func, "abs") and len(e.args) == 1:
        return linear_form(e.args[0], val)
    if isinstance(e, ast.UnaryOp) and isinstance(e.op, ast.USub):
        a = linear_form(e.operand, val)
        return None if a is None else {k: -v for k, v in a.items()}
    if isinstance(e, ast.BinOp) and isinstance(e.op, (ast.Add, ast.Sub)):
        a, b = linear_form(e.left, val), linear_form(e.right, val)
        if a is None or b is None:
            return None
        sign = 1 if isinstance(e.op, ast.Add) else -1
        out = dict(a)
        for k, v in b.items():
            out[k] = out.get(k, 0) + sign * v
        return out
    if isinstance(e, ast.BinOp) and isinstance(e.op, ast.Mult):
        a, b = linear_form(e.left, val), linear_form(e.right, val)
        if a is not None and b is not None:
            if set(a) <= {"1"}:
                return {k: a.get("1", 0) * v for k, v in b.items()}
            if set(b) <= {"1"}:
                return {k: b.get("1", 0) * v for k, v in a.items()}
    return None


def judge_modulo(ret_expr, val):
    """-> (verdict, text).  verdict True/False, or None when the shape is outside the normaliser."""
    e = ret_expr
    if not (isinstance(e, ast.Compare) and len(e.ops) == 1 and isinstance(e.ops[0], ast.Eq)):
        return None, f"`{norm(e)}` is not `<expr> % modulo == 0`"
    lhs, rhs = e.left, e.comparators[0]
    if isinstance(lhs, ast.Constant):
        lhs, rhs = rhs, lhs
    if not (isinstance(rhs, ast.Constant) and rhs.value == 0 and isinstance(lhs, ast.BinOp) and isinstance(lhs.op, ast.Mod)):
        return (False if isinstance(rhs, ast.Constant) and isinstance(lhs, ast.BinOp) and isinstance(lhs.op, ast.Mod) else None), \
            f"`{norm(e)}` does not test a remainder against 0"
    if not is_self_attr(lhs.right, "modulo"):
        return False, f"the remainder is taken modulo `{norm(lhs.right)}`, not the modulus"
    lf = linear_form(lhs.left, val)
    if lf is None:
        return None, f"`{norm(lhs.left)}` is not an integer-linear expression of value, start and modulo"
    lf = {k: v for k, v in lf.items() if k != "modulo" and v != 0}      # multiples of the modulus do not change the remainder
    ok = lf in ({"value": 1, "start": -1}, {"value": -1, "start": 1})
    return ok, f"divisibility of {' '.join(f'{v:+d}*{k}' for k, v in sorted(lf.items()))} (up to multiples of the modulus) by the modulus"


def check_captures_shape(fn):
    """Structural reading of Selector.check_captures -> list of problems."""
    problems = []
    rets = returns_of(fn)
    falses = [r for r in rets if isinstance(r.value, ast.Constant) and r.value.value is False]
    trues = [r for r in rets if isinstance(r.value, ast.Constant) and r.value.value is True]
    if len(rets) != len(falses) + len(trues):
        raise AnalysisError("selector.Selector.check_captures: non-literal return (shape not recognised)")
    last = fn.body[-1]
    if not (isinstance(last, ast.Return) and last in trues and len(trues) == 1):
        problems.append("does not end with the single `return True` (must accept exactly when no mismatch was found)")
    early = [n for n in walk_local(fn) if isinstance(n, ast.Break)]
    if early:
        problems.append(f"line {early[0].lineno}: `break` leaves a loop before every condition / every captured value was judged (the conditions after it -- "
                        "the receiver of a bound method comes last -- are accepted unseen)")
    if len(falses) == 2:
        # nested form (what the normal form gives for a conditional match): one rejection per kind of condition
        #   v.capture in captures, isinstance(v.value, MatchFunction), not v.value.fn(value)   |   ..., not isinstance(..), v.value != value
        loops_ok = True
        shapes = set()
        for rf in falses:
            loops = [a for a in _anc(rf) if isinstance(a, ast.For)]
            iters = [norm(l.iter) for l in loops]
            if not (any(i.endswith(".all_values") for i in iters) and any(i.endswith(".values") for i in iters)):
                loops_ok = False
            inner = loops[0].target.id if loops and isinstance(loops[0].target, ast.Name) else "?"
            outer = loops[-1].target.id if loops and isinstance(loops[-1].target, ast.Name) else "?"
            def roles(c):
                t = ast.parse(c, mode="eval").body
                for n in ast.walk(t):
                    if isinstance(n, ast.Name):
                        n.id = "V" if n.id == outer else "X" if n.id == inner else n.id
                return norm(t)
            cs = frozenset(roles(c) for c in conds(rf, fn))
            shapes.add(cs)
        if not loops_ok:
            problems.append("a rejection is not inside the loops over self.all_values and over the captured values (must hold for every value)")
        want = {frozenset({"V.capture in captures", "isinstance(V.value, MatchFunction)", "not V.value.fn(X)"}),
                frozenset({"V.capture in captures", "not isinstance(V.value, MatchFunction)", "V.value != X"})}
        alt = {frozenset({"V.capture in captures", "isinstance(V.value, MatchFunction)", "not V.value.fn(X)"}),
               frozenset({"V.capture in captures", "not isinstance(V.value, MatchFunction)", "X != V.value"})}
        # an identity short cut next to the equality (`v.value is value or v.value == value`) rejects in exactly the same cases for values equal to themselves
        ident = {"V.value is not X", "X is not V.value"}
        shapes = {frozenset(c for c in sh if not (c in ident and ({"V.value != X", "X != V.value"} & sh))) for sh in shapes}
        if shapes not in (want, alt):
            problems.append(f"the rejecting conditions are {sorted(sorted(x) for x in shapes)}: expected a MatchFunction predicate that fails on the value, or a plain value that differs from it, for a capture present in the table")
        return problems
    if len(falses) != 1:
        problems.append(f"expected one rejecting return (or one per kind of condition), found {len(falses)}")
        return problems
    rf = falses[0]
    loops = [a for a in _anc(rf) if isinstance(a, ast.For)]
    iters = [norm(l.iter) for l in loops]
    if not any(i.endswith(".all_values") for i in iters):
        problems.append("rejection is not inside the loop over self.all_values")
    if not any(i.endswith(".values") for i in iters):
        problems.append("rejection is not inside the loop over the captured values (must hold for every value)")
    cond = next((a for a in _anc(rf) if isinstance(a, ast.If) and rf in a.body), None)
    if cond is None:
        problems.append("rejecting return is not conditional")
        return problems
    # the condition must be the negation of `match`
    t = cond.test
    if not (isinstance(t, ast.UnaryOp) and isinstance(t.op, ast.Not)):
        problems.append(f"rejection condition `{norm(t)}` is not `not <match>`")
        return problems
    m = t.operand
    disj = None
    if isinstance(m, ast.Name):
        defs = [n for n in walk_local(fn) if isinstance(n, ast.Assign) and any(is_name(x, m.id) for x in n.targets)]
        if len(defs) == 2:
            # if isinstance(v.value, MatchFunction): match = v.value.fn(value)  else: match = v.value == value
            par = getattr(defs[0], "_parent", None)
            if isinstance(par, ast.If) and par is getattr(defs[1], "_parent", None) and defs[0] in par.body and defs[1] in par.orelse \
                    and len(par.body) == 1 and len(par.orelse) == 1:
                disj = [ast.BoolOp(op=ast.And(), values=[par.test, defs[0].value]), defs[1].value]
        if disj is None:
            if len(defs) != 1:
                raise AnalysisError("selector.Selector.check_captures: definition of the match variable not recognised")
            m = defs[0].value
    if disj is None:
        disj = m.values if isinstance(m, ast.BoolOp) and isinstance(m.op, ast.Or) else [m]
    flat = []
    for d in disj:
        flat += d.values if isinstance(d, ast.BoolOp) and isinstance(d.op, ast.Or) else [d]
    disj = flat
    inner = loops[0].target.id if isinstance(loops[0].target, ast.Name) else None   # innermost loop variable = value
    have_eq = have_fn = False
    for d in disj:
        c = compare_normal(d, lambda n: is_name(n, inner))
        if c is not None and c[0] in (ast.Eq, ast.Is) and norm(c[1]).endswith(".value"):
            have_eq = have_eq or c[0] is ast.Eq
            continue
        if isinstance(d, ast.BoolOp) and isinstance(d.op, ast.And) and len(d.values) == 2:
            a, b = d.values
            if (isinstance(a, ast.Call) and norm(a.func) == "isinstance" and norm(a.args[1]) == "MatchFunction"
                    and isinstance(b, ast.Call) and norm(b.func).endswith(".value.fn") and len(b.args) == 1
                    and is_name(b.args[0], inner)):
                have_fn = True
                continue
        problems.append(f"extra or unrecognised acceptance condition `{norm(d)}`")
    if not have_eq:
        problems.append("equality of the stated value with the captured value is no longer an acceptance condition")
    if not have_fn:
        problems.append("MatchFunction predicates are no longer applied to the captured value")
    # only captures present in the dict are checked
    guard = [a for a in _anc(rf) if isinstance(a, ast.If) and isinstance(a.test, ast.Compare)
             and isinstance(a.test.ops[0], ast.In) and norm(a.test.left).endswith(".capture")]
    if not guard:
        problems.append("no `capture in captures` guard (variables not yet captured must not be judged)")
    return problems


def _anc(n):
    cur = getattr(n, "_parent", None)
    while cur is not None and not isinstance(cur, (ast.FunctionDef, ast.Lambda)):
        yield cur
        cur = getattr(cur, "_parent", None)


def check_guard_wrapping(repo, chk):
    """R12.2"""
    init = repo.func("interpret.BaseAccumulator.__init__")
    ck = repo.func("interpret.BaseAccumulator.__check")
    where = init.where
    for slot in ("intercept", "trigger", "close"):
        ok, msg = False, f"self._{slot} is not assigned from self.__check({slot}, check)"
        for n in walk_local(init.node):
            if isinstance(n, ast.Assign) and any(is_self_attr(t, f"_{slot}") for t in n.targets):
                v = n.value
                ok = (isinstance(v, ast.Call) and norm(v.func) in ("self.__check", "self._BaseAccumulator__check")
                      and len(v.args) == 2 and is_name(v.args[0], slot) and is_name(v.args[1], "check"))
                msg = f"self._{slot} = {norm(v)}"
        chk.ob("R12.2", f"interpret.BaseAccumulator.__init__:wrap:{slot}", ok, where,
               f"user {slot} handler wrapped by the capture check: {msg}")
    # __check: returns wrapper iff fn and check and selector.hasval; wrapper calls check_captures and yields ABSENT otherwise
    inner = [f2.node for f2 in repo.functions.values() if f2.parent is not None and f2.parent.qual == ck.qual and isinstance(f2.node, ast.FunctionDef)]
    ok = False
    detail = "shape not recognised"
    fnparam = ck.node.args.args[1].arg
    rets = returns_with_conds(ck.node)
    if len(inner) == 1 and rets and ends_in_jump(ck.node.body):
        want = sorted([fnparam, ck.node.args.args[2].arg, "self.selector.hasval"])
        wrapped = [cs for cs, v, _ in rets if is_name(v, inner[0].name)]
        plain = [cs for cs, v, _ in rets if is_name(v, fnparam)]
        # the wrapper is returned under exactly the three conditions; every other return (however the complement is split up) hands back the handler as it is
        ok = len(wrapped) == 1 and sorted(wrapped[0]) == want and len(wrapped) + len(plain) == len(rets) and bool(plain)
        detail = "returns " + "; ".join(f"{norm(v)} when {cs}" for cs, v, _ in rets)
    chk.ob("R12.2", "interpret.BaseAccumulator.__check:condition", ok, ck.where,
           "the wrapper is installed exactly when a handler is given, checking is on and the selector has values: " + detail)
    if inner:
        w = inner[0]
        gate = f"self.selector.check_captures({w.args.args[0].arg})"
        wr = returns_with_conds(w)
        absent = [cs for cs, v, _ in wr if is_name(v, "ABSENT")]
        runs = [cs for cs, v, _ in wr if isinstance(v, ast.Call) and is_name(v.func, fnparam)]
        # every way through the wrapper returns; ABSENT exactly when the gate fails; the handler only when it holds; nothing else
        ok = ends_in_jump(w.body) and len(absent) >= 1 and len(runs) >= 1 and len(absent) + len(runs) == len(wr) \
            and all(cs == [f"not {gate}"] for cs in absent) and all(gate in cs for cs in runs) \
            and not any(isinstance(c, ast.Call) and is_name(c.func, fnparam) and gate not in conds(c, w) for c in ast.walk(w))
        chk.ob("R12.2", "interpret.BaseAccumulator.__check:wrapper", ok, ck.where,
               "wrapper runs the handler iff check_captures(results) holds and otherwise returns ABSENT (= no event, no override)")
    # fork passes wrapped callables and check=False
    fork = repo.func("interpret.BaseAccumulator.fork")
    calls = [c for c in ast.walk(fork.node) if isinstance(c, ast.Call) and c.keywords and kwarg(c, "selector") is not None]
    if len(calls) != 1:
        raise AnalysisError("interpret.BaseAccumulator.fork: constructor call not found")
    c = calls[0]
    for slot in ("intercept", "trigger", "close"):
        v = kwarg(c, slot)
        chk.ob("R12.2", f"interpret.BaseAccumulator.fork:pass:{slot}", v is not None and is_self_attr(v, f"_{slot}"), fork.where,
               f"fork hands the already-wrapped {slot} to the child ({slot}={norm(v) if v is not None else 'missing'})")
    v = kwarg(c, "check")
    chk.ob("R12.2", "interpret.BaseAccumulator.fork:check=False", v is not None and isinstance(v, ast.Constant) and v.value is False,
           fork.where, "fork does not wrap a second time (check=False)")


def run(repo, chk):
    chk.explanation = (
        "Decides the structural clauses of C12: each stock comparison predicate is a single comparison whose operator, "
        "after normalising operand order and negation, is the one its name states (true for all integers, not a sample); "
        "Range rejects exactly value<start / value>=end under not-None guards and, with a modulus, accepts iff value-start is divisible by it "
        "(linear normal form modulo the modulus, valid for all integers); every/between forward their arguments to the "
        "same-named Range fields; intercept, trigger and close are wrapped by one capture check installed under one condition; "
        "check_captures rejects on the first mismatching captured value and accepts otherwise. Not decided: "
        "throttle (stateful), end-to-end event filtering.")
    chk.not_decided += ["throttle", "end-to-end filtering of events at run time"]
    chk.assumptions += ["Python comparison semantics on integers", "handlers are invoked only through the wrapped slots (R12.2)"]
    chk.rule("R12.1", "stock predicates touch their argument through exactly the comparison their name states; Range rejection set "
                      "= {value < start | start is not None, value >= end | end is not None}; every/between/Range.__init__ route "
                      "arguments to the same-named fields", 10)
    chk.rule("R12.2", "intercept, trigger and close are wrapped by the same capture check under the same condition; fork passes "
                      "the wrapped callables with check=False; a failed check yields ABSENT", 8)
    chk.rule("R12.3", "check_captures returns False on the first mismatching value of any constrained capture and True "
                      "otherwise; hasval / all_values aggregate over captures and children", 4)

    # fixtures
    fx = parse_fixture("def f(self, value):\n    return value % self.modulo == 0\n").body[0].body[0].value
    chk.fixture("R12.1", "modulo test ignoring start", True, judge_modulo(fx, "value")[0] is not True)
    fx = parse_fixture("def f(self, value):\n    return abs(value - (self.start or 0)) % self.modulo == 0\n").body[0].body[0].value
    chk.fixture("R12.1", "abs(value - start) % m == 0 (equivalent)", False, judge_modulo(fx, "value")[0] is not True)
    good = parse_fixture("def lt(end):\n    return lambda x: end > x\n").body[0]
    bad = parse_fixture("def lt(end):\n    return lambda x: x <= end\n").body[0]
    chk.fixture("R12.1", "lt flipped operands (equivalent)", False, not judge_comparison(good)[0])
    chk.fixture("R12.1", "lt using <=", True, not judge_comparison(bad)[0])

    # R12.1 comparisons
    for name in ("lt", "gt", "lte", "gte"):
        fi = repo.func(f"tools.{name}")
        ok, desc = judge_comparison(fi.node)
        chk.ob("R12.1", f"tools.{name}:operator", ok, fi.where, f"{name}: {desc}")
        chk.count("predicates")
    rc = repo.func("tools.Range.__call__")
    val, rej, tail, impure = range_decisions(rc.node)
    want = {("start", ast.Lt), ("end", ast.GtE)}
    got = {(f, op) for f, g, op in rej}
    for f, op in sorted(want, key=str):
        chk.ob("R12.1", f"tools.Range.__call__:reject:{f}", (f, op) in got, rc.where,
               f"Range rejects when value {OPNAME[op]} {f}" + ("" if (f, op) in got else
               f" -- found instead: {[(x, OPNAME[o]) for x, o in got if x == f]}"))
    for f, g, op in rej:
        if (f, op) not in want:
            chk.ob("R12.1", f"tools.Range.__call__:extra-reject:{f}:{OPNAME[op]}", False, rc.where,
                   f"Range has a rejection the property does not state: value {OPNAME[op]} {f}")
        chk.ob("R12.1", f"tools.Range.__call__:guard:{f}", g, rc.where, f"the bound `{f}` is only compared when it is not None")
    # what remains after the rejections: `<modulo test> if self.modulo is not None else True`, in either order of writing
    def is_true(v):
        return isinstance(v, ast.Constant) and v.value is True
    modexpr = None
    if len(tail) == 2 and tail[1][0] == []:
        (l0, v0), (_, v1) = tail
        if l0 == ["self.modulo is not None"] and is_true(v1):
            modexpr = v0
        elif l0 == ["self.modulo is None"] and is_true(v0):
            modexpr = v1
    tail_ok = modexpr is not None and not impure
    chk.ob("R12.1", "tools.Range.__call__:accept-otherwise", tail_ok, rc.where,
           "values that are not rejected are accepted when there is no modulus (no other statement kinds, no other result)"
           + ("" if tail_ok else f" -- found: {[(l, norm(v)) for l, v in tail]}, other statements: {[norm(x)[:40] for x in impure]}"))
    if modexpr is None:
        if not any("modulo" in " ".join(l) for l, _ in tail):
            raise AnalysisError("tools.Range.__call__: modulo branch not recognised")
    else:
        pure = True
        for n in ast.walk(modexpr):
            if isinstance(n, ast.Name) and n.id not in (val, "self", "abs"):
                pure = False
            if isinstance(n, ast.Attribute) and is_name(n.value, "self") and n.attr not in ("start", "modulo"):
                pure = False
        chk.ob("R12.1", "tools.Range.__call__:modulo-pure", pure, rc.where, "the modulo test is a pure expression of value, start and modulo")
        verdict, txt = judge_modulo(modexpr, val)
        if verdict is None:
            raise AnalysisError(f"tools.Range.__call__: modulo test outside the normaliser: {txt}")
        chk.ob("R12.1", "tools.Range.__call__:modulo-is-divisibility-of-value-minus-start", verdict, rc.where,
               f"with a modulus, a value in range is accepted iff value - start is divisible by it, for all integers: the test normalises to {txt} "
               "((a + k*m) mod m = a mod m; |a| is divisible by m iff a is)")
    # argument routing
    ri = repo.func("tools.Range.__init__")
    for f in ("start", "end", "modulo"):
        ok = any(isinstance(n, ast.Assign) and any(is_self_attr(t, f) for t in n.targets) and is_name(n.value, f)
                 for n in walk_local(ri.node))
        chk.ob("R12.1", f"tools.Range.__init__:field:{f}", ok, ri.where, f"Range stores its `{f}` argument in self.{f}")
    for fname in ("every", "between"):
        fi = repo.func(f"tools.{fname}")
        cs = calls_named(fi.node, "Range")
        if len(cs) != 1:
            raise AnalysisError(f"tools.{fname}: Range(...) call not found")
        params = [a.arg for a in fi.node.args.args]
        for f in ("start", "end", "modulo"):
            v = kwarg(cs[0], f)
            chk.ob("R12.1", f"tools.{fname}:route:{f}", v is not None and is_name(v, f) and f in params, fi.where,
                   f"{fname} forwards `{f}` to Range({f}=...) (found {norm(v) if v is not None else 'nothing'})")
    ev = repo.func("tools.every").node
    dflt = dict(zip([a.arg for a in ev.args.args][-len(ev.args.defaults):], ev.args.defaults))
    chk.ob("R12.1", "tools.every:defaults", norm(dflt.get("start", ast.Constant(value="?"))) == "0"
           and norm(dflt.get("end", ast.Constant(value="?"))) == "None" and [a.arg for a in ev.args.args][0] == "modulo",
           repo.func("tools.every").where, "every(n, start=0, end=None): first positional argument is the modulus")
    bt = repo.func("tools.between").node
    chk.ob("R12.1", "tools.between:positional-order", [a.arg for a in bt.args.args][:2] == ["start", "end"],
           repo.func("tools.between").where, "between(a, b) takes the lower bound first")

    # R12.2
    check_guard_wrapping(repo, chk)

    # R12.3
    cc = repo.func("selector.Selector.check_captures")
    probs = check_captures_shape(cc.node)
    chk.ob("R12.3", "selector.Selector.check_captures:universal", not probs, cc.where,
           "check_captures rejects iff some captured value of a constrained capture mismatches" + ("; ".join([""] + probs)))
    for cls, props in (("selector.Call", ("hasval", "all_values")), ("selector.Element", ("hasval", "all_values"))):
        for p in props:
            fi = repo.func(f"{cls}.{p}")
            txt = norm(fi.node)
            selfattrs = {n.attr for n in ast.walk(fi.node) if is_self_attr(n)}
            attrs = {n.attr for n in ast.walk(fi.node) if isinstance(n, ast.Attribute)}
            if cls.endswith("Call"):
                ok = {"captures", "children"} <= selfattrs and p in attrs and \
                    (any(isinstance(n, ast.Call) and is_name(n.func, "any") for n in ast.walk(fi.node)) if p == "hasval" else True)
                what = f"Call.{p} aggregates over captures and children"
            else:
                ok = ("self.value is not ABSENT" in txt) if p == "hasval" else ("hasval" in selfattrs and "[self]" in txt)
                what = f"Element.{p} reflects whether a value is stated"
            chk.ob("R12.3", f"{cls}.{p}:aggregation", ok, fi.where, what)
    from .shared import shared_value_mutations
    muts = shared_value_mutations(repo, {"selector.Element", "selector.Call"})
    chk.ob("R12.3", "selector:value-conditions-are-not-shared-between-selectors", not muts, "ptera/selector.py",
           "the conditions checked by check_captures (all_values) are collected in a fresh list per selector, never appended to the cached list of a shared part" + (f" -- {muts}" if muts else ""))
    # writer's and reader's keys agree: check_captures reads captures[v.capture]; every entry of an accumulator's table is filed under element.capture
    keys, bad_keys = [], []
    for fi in repo.functions.values():
        if not fi.qual.startswith("interpret."):
            continue
        params = {a.arg for a in fi.node.args.args}
        for n in walk_local(fi.node):
            k = None
            if isinstance(n, ast.Subscript) and expand(n.value, fi.node) == "self.captures":
                k = n.slice
            elif isinstance(n, ast.Compare) and len(n.ops) == 1 and isinstance(n.ops[0], (ast.In, ast.NotIn)) and expand(n.comparators[0], fi.node) == "self.captures":
                k = n.left
            if k is None:
                continue
            kt = expand(k, fi.node)
            good = isinstance(k, ast.AST) and kt.endswith(".capture") and kt[:-len(".capture")] in params
            keys.append(f"{fi.qual}:{kt}")
            if not good:
                bad_keys.append(f"{fi.qual}: self.captures[{kt}]")
    readers = [norm(n) for fi in repo.functions.values() if fi.qual.startswith("selector.") for n in walk_local(fi.node)
               if isinstance(n, ast.Subscript) and norm(n.value) == "captures"]
    chk.ob("R12.3", "interpret:captures-filed-under-the-name-the-check-reads", len(keys) >= 4 and not bad_keys and readers == ["captures[v.capture]"], "ptera/interpret.py",
           f"check_captures looks a constrained variable up as {readers}; every entry of an accumulator's capture table -- the tentative one that intercept files "
           f"for the duration of the check included -- is filed under `<element>.capture` ({len(keys)} sites), so a variable captured under another name "
           f"(`j as v~cond`) is checked on the value just offered, not on a stale one" + (f"; differently keyed: {bad_keys}" if bad_keys else ""))
    chk.count("functions", 14)
    from .shared import activation_integrity_obligations
    activation_integrity_obligations(repo, chk, "R12.2", "probes with value conditions")
    from .shared import routing_obligations
    routing_obligations(repo, chk, "R12.2", "offer")
    from .shared import build_precedence_obligations
    build_precedence_obligations(repo, chk, "R12.3", "a condition written on the outer call (outer(x=1) > inner > x) is checked against the outer variable")
    from .shared import call_aggregate_obligations
    call_aggregate_obligations(repo, chk, "R12.3", ["hasval", "all_values"], "conditions written on nested calls are checked like those on the outermost call")
    from .shared import intercept_combination_obligations
    intercept_combination_obligations(repo, chk, "R12.2")
