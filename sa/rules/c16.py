"""C16 - declared-but-unset variables; the ABSENT marker never escapes."""
import ast

from ..astq import conds, facts_of, is_name, is_self_attr, returns_of
from ..cfg import CFG
from ..core import AnalysisError, norm, walk_local
from ..xform import query as Q
from ..xform.terms import (Copy, GenericVisit, Ident, In, InList, Lib, Node, Raise, Rec, Star, SymStr, Visit, children, walk)
from .c04 import parents


def is_absent_source(t):
    """Template terms that can evaluate to the marker: the marker itself and a lookup in the defaulting globals pile."""
    if Q.is_lib_name(t, "ABSENT"):
        return "the ABSENT marker"
    if isinstance(t, Node) and t.cls == "Subscript":
        v = t.fields.get("value")
        if isinstance(v, Node) and v.cls == "Name" and v.fields.get("id") == "__ptera_globals":
            return "__ptera_globals[name] (defaults to ABSENT)"
    return None


def run(repo, chk):
    chk.explanation = (
        "Decides the structural clauses of C16 as a taint analysis of ptera's internal marker. In the output templates (all programs, all "
        "instrumentation subsets): a term that may evaluate to ABSENT -- the marker itself or a lookup in the defaulting globals pile -- may "
        "only appear as the value argument of an interact call, never as the value of a store to a user name, a return or a yield (R16.1), and only "
        "at a bare declaration or where the original program reads the name (R16.4). In interpret.py: every path from the last definition "
        "of the value to log / trigger / return passes the test `value is ABSENT -> raise PteraNameError(varname, fn)`, and the error object exposes the "
        "recorded info of the variable (R16.2); marker values produced at run time (emitter results, failed checks, intercept defaults) only flow into "
        "identity tests (R16.3). Which path an input takes is not decided.")
    chk.not_decided += ["which path a given input takes", "whether an overlay actually supplies the declared variable (runtime)"]
    chk.assumptions += ["lib['globals'] is the only defaulting lookup (checked: DictPile(..., default=ABSENT) in transform())"]
    chk.rule("R16.1", "marker taint in templates: an ABSENT-capable term reaches user code only through the value argument of interact", 2)
    chk.rule("R16.2", "the guard dominates: value is ABSENT -> raise PteraNameError(varname, fn) before log, trigger and return; the error exposes __ptera_info__[varname]", 3)
    chk.rule("R16.3", "marker taint at run time: ABSENT results only flow into `is ABSENT` / `is not ABSENT` tests, never into captures, pushes or callbacks", 3)
    chk.rule("R16.4", "an ABSENT-capable source reaches interact only at a bare declaration or where the original program reads the name", 1)

    cls, H, stats = Q.templates(repo, chk.tier)
    chk.analysed["engine_T"] = stats

    # the defaulting pile
    tr = repo.func("transform.transform")
    from .shared import dictpile_obligations
    dictpile_obligations(repo, chk, "R16.1")
    from .shared import annotation_cache_obligations
    annotation_cache_obligations(repo, chk, "R16.2")
    from .shared import hasval_obligations
    hasval_obligations(repo, chk, "R16.3", "a supplier for a declared-only variable on `outer > inner(a=1) > w` declines where the condition does not hold, and the call then fails with the name error")
    from .shared import intercept_combination_obligations
    intercept_combination_obligations(repo, chk, "R16.3")

    # ---------------- R16.1 / R16.4
    leaks, sanitised, eager = {}, 0, []
    for hname, paths in H.items():
        for p in paths:
            for t, par, field in parents(p.template):
                src = is_absent_source(t)
                if not src:
                    continue
                if par is not None and Q.is_interact(par) and field == "args":
                    sanitised += 1
                    ix = Q.Interact(par)
                    if "globals" in src and hname == "visit_FunctionDef":
                        eager.append(ix.symname)
                    continue
                if par is not None and par.cls == "Subscript" and field == "value":
                    continue
                where = f"{par.cls}.{field}" if par is not None else "top"
                what = "bare declaration" if "marker" in src and hname == "visit_AnnAssign" else ("external prologue" if "globals" in src else hname)
                leaks.setdefault((hname, what, where), src)
    for (hname, what, where), src in sorted(leaks.items()):
        chk.ob("R16.1", f"{hname}:{what}:{where}", False, f"ptera/transform.py ({hname})",
               f"{src} is emitted as {where} on the non-instrumented branch of the {what}: the marker is bound to a user variable "
               "instead of going through interact (which raises); user code can then read, return or pass on the ABSENT object")
    chk.ob("R16.1", "templates:marker-only-as-interact-value", sanitised >= 2, "ptera/transform.py", f"{sanitised} ABSENT-capable terms are passed as the value argument of interact (where the guard of R16.2 applies)")
    if not leaks:
        chk.ob("R16.1", "templates:no-marker-in-store-return-yield", True, "ptera/transform.py", "no ABSENT-capable term is the value of a store, a return or a yield")
    chk.ob("R16.4", "visit_FunctionDef:externals-interacted-eagerly", not eager, "ptera/transform.py (visit_FunctionDef)",
           "every external (global/builtin) name is looked up and passed to interact at function entry: with full instrumentation an undefined global raises "
           "PteraNameError at entry even on paths that never use it (Python raises NameError only at the point of use, and nothing if unused)")
    decl = [p for p in H.get("visit_AnnAssign", []) if dict(p.decisions).get("present|node.value") is False and not isinstance(p.template, Raise)]
    ok = bool(decl) and all(any(Q.is_lib_name(Q.Interact(x).value, "ABSENT") for x in walk(p.template) if Q.is_interact(x))
                            for p in decl if any(k.startswith("instrument|") and v for k, v in p.decisions))
    chk.ob("R16.4", "visit_AnnAssign:declaration-interacts-with-marker", ok, "ptera/transform.py (visit_AnnAssign)",
           "an instrumented bare declaration `x: T` becomes x = interact('x', T, ABSENT): supplied from outside or PteraNameError at the declaration")

    # ---------------- R16.2
    ia = repo.func("interpret.Interactor.interact")
    g = CFG(ia.node, lambda s: isinstance(s, (ast.Raise, ast.Assert)))
    params = [a.arg for a in ia.node.args.args]
    vname = params[4] if len(params) >= 6 else "value"
    tests = [n for n in g.nodes if n.kind == "test" and norm(n.stmt.test) == f"{vname} is ABSENT"]
    sinks = g.find(lambda n: n.kind == "stmt" and (".log(" in n.text() or ".trigger(" in n.text() or isinstance(n.stmt, ast.Return)))
    defs = [n for n in g.nodes if n.kind == "stmt" and isinstance(n.stmt, ast.Assign) and any(is_name(t, vname) for t in n.stmt.targets)]
    chk.ob("R16.2", "interpret.Interactor.interact:guard-present", len(tests) == 1, ia.where, f"one test `{vname} is ABSENT`")
    if tests:
        t = tests[0]
        tb = [m for m, lab in t.succ if lab == "t"]
        raising = bool(tb) and all(isinstance(m.stmt, ast.Raise) and "PteraNameError" in norm(m.stmt) for m in tb)
        chk.ob("R16.2", "interpret.Interactor.interact:guard-raises-PteraNameError", raising, ia.where, "the true branch raises PteraNameError")
        rs = [m.stmt for m in tb if isinstance(m.stmt, ast.Raise)]
        args_ok = bool(rs) and isinstance(rs[0].exc, ast.Call) and [norm(a) for a in rs[0].exc.args] == [params[1], "self.fn"]
        chk.ob("R16.2", "interpret.Interactor.interact:error-identifies-variable-and-function", args_ok, ia.where, "the error carries the variable name and the function")
        from .shared import marker_free_definitions
        clean = marker_free_definitions(ia, g, vname)
        dominated = all(not g.path_exists(g.entry, s, avoid=[t] + clean) for s in sinks) and bool(sinks)
        chk.ob("R16.2", "interpret.Interactor.interact:guard-before-log-trigger-return", dominated, ia.where,
               "every path to log, trigger or return passes the guard" + ("" if dominated else f" -- {[s.text()[:40] for s in sinks if g.path_exists(g.entry, s, avoid=[t])]}"))
        after_defs = all(not g.path_exists(t, d) for d in defs) and all(d in clean for d in defs)
        chk.ob("R16.2", "interpret.Interactor.interact:guard-after-last-definition", after_defs, ia.where, "the value is not redefined after the guard (an override that yields ABSENT is caught too)")
    ne = repo.func("transform.PteraNameError.info")
    chk.ob("R16.2", "transform.PteraNameError.info:exposes-recorded-info", norm(returns_of(ne.node)[0].value) == "self.function.__ptera_info__[self.varname]", ne.where,
           "the error exposes the variable's recorded annotation and provenance")
    pi = repo.func("transform.PteraNameError.__init__")
    chk.ob("R16.2", "transform.PteraNameError:is-NameError", any(is_name(b, "NameError") for b in repo.cls("transform.PteraNameError").bases) and
           facts_of(pi).has("self.varname = varname", exactly=[]) and facts_of(pi).has("self.function = function", exactly=[]), pi.where, "PteraNameError is a NameError that records variable and function")

    # ---------------- R16.3 (the offer): what interact hands to the intercept handlers before the guard
    offers = g.find(lambda n: n.kind == "stmt" and ".intercept(" in n.text() and vname in {x.id for x in ast.walk(n.stmt) if isinstance(x, ast.Name)})
    guarded_offer = bool(offers) and all(not g.path_exists(g.entry, o, avoid=tests) for o in offers)
    bi = repo.func("interpret.BaseAccumulator.intercept")
    tparam = bi.node.args.args[4].arg if len(bi.node.args.args) >= 5 else "tentative"
    filed = [n for n in walk_local(bi.node) if isinstance(n, ast.Call) and isinstance(n.func, ast.Attribute) and n.func.attr in ("set", "accum") and any(is_name(a, tparam) for a in n.args)]
    from ..astq import conds as _conds
    filtered = bool(filed) and all(any(tparam in c and "ABSENT" in c for c in _conds(n, bi.node)) for n in filed)
    chk.ob("R16.3", "interpret.Interactor.interact:the-value-offered-to-handlers-is-never-the-marker", guarded_offer or filtered, ia.where,
           "interact offers the tentative value to the intercept handlers BEFORE the `is ABSENT` guard (that is how an overlay supplies a declared-only variable), and "
           f"BaseAccumulator.intercept files it unconditionally in the capture the handler receives ({[norm(n)[:50] for n in filed]}): for a bare declaration the handler -- a rewriter "
           "function, the stream of an overridable probe -- is handed the marker as the variable's value")
    # ---------------- R16.3
    def absent_uses(fi):
        out = []
        for n in walk_local(fi.node):
            if isinstance(n, ast.Name) and n.id == "ABSENT":
                p = n._parent
                if isinstance(p, ast.Compare) and all(isinstance(o, (ast.Is, ast.IsNot)) for o in p.ops):
                    out.append(("identity-test", norm(p)))
                elif isinstance(p, ast.Return):
                    out.append(("return", norm(p)))
                elif isinstance(p, ast.Assign):
                    out.append(("assign", norm(p)))
                elif isinstance(p, ast.keyword) or isinstance(p, ast.arguments) or isinstance(p, ast.Dict):
                    out.append(("default", norm(p) if not isinstance(p, ast.arguments) else "default argument"))
                elif isinstance(p, ast.Call):
                    out.append(("call-argument", norm(p)))
                else:
                    out.append((type(p).__name__, norm(p)[:80]))
        return out
    bad = []
    total = 0
    for q, fi in repo.functions.items():
        if fi.module in ("interpret", "probe", "overlay"):
            for kind, txt in absent_uses(fi):
                total += 1
                if kind == "call-argument" and not txt.startswith(("specializations.get", "getattr")):
                    bad.append(f"{q}: {txt}")
    chk.ob("R16.3", "runtime:marker-never-a-call-argument", not bad and total >= 6, "ptera/interpret.py, probe.py, overlay.py",
           f"in the {total} uses of ABSENT in the runtime modules the marker is only tested, returned or assigned, never passed to a capture / push / callback" + (f" -- {bad[:3]}" if bad else ""))
    wi = repo.func("interpret.WorkingFrame.intercept")
    ia2 = repo.func("interpret.Interactor.interact")
    fr_uses = []
    frd = [n for n in walk_local(ia2.node) if isinstance(n, ast.Assign) and len(n.targets) == 1 and isinstance(n.targets[0], ast.Name) and isinstance(n.value, ast.Call)
           and isinstance(n.value.func, ast.Attribute) and n.value.func.attr == "intercept"]
    FR = frd[0].targets[0].id if len(frd) == 1 else "<result of intercept>"
    for n in walk_local(ia2.node):
        if isinstance(n, ast.Name) and n.id == FR and isinstance(n.ctx, ast.Load):
            par = n._parent
            if isinstance(par, ast.Compare) and all(isinstance(o, (ast.Is, ast.IsNot)) for o in par.ops) and any(is_name(c, "ABSENT") for c in [par.left, *par.comparators]):
                fr_uses.append("test")
            elif isinstance(par, ast.Assign):
                guarded = f"{FR} is not ABSENT" in conds(par, ia2.node)
                fr_uses.append("kept" if guarded else "kept-unguarded")
            else:
                fr_uses.append("other:" + norm(par)[:40])
    chk.ob("R16.3", "interpret.Interactor.interact:intercept-result-only-tested", "test" in fr_uses and set(fr_uses) <= {"test", "kept"}, ia2.where,
           "the result of the intercept chain (possibly ABSENT) is only tested for identity with ABSENT before it may become the value")
    from .shared import variant_selection_obligations
    variant_selection_obligations(repo, chk, "R16.4")
    from .shared import reinstall_obligations
    reinstall_obligations(repo, chk, "R16.4", "when a probe that named a conditionally used global leaves while another stays, the function stops fetching that global at entry")
    from .shared import late_bound
    for m_ in ("tweak", "rewrite"):
        fo = repo.func(f"overlay.Overlay.{m_}")
        lb = late_bound(fo.node)
        chk.ob("R16.3", f"overlay.Overlay.{m_}:each-variable-is-supplied-its-own-value", not lb, fo.where,
               f"{m_}() builds one intercept per selector, bound to that selector's own value at construction: a declared-only variable supplied together with others proceeds with the value given for it"
               + (f" -- {lb}" if lb else ""))
    em = repo.func("probe.Probe._emit")
    chk.ob("R16.3", "probe.Probe._emit:returns-ABSENT-after-push", [norm(r.value) for r in returns_of(em.node)] == ["ABSENT"], em.where, "a plain probe never overrides: its emitter returns ABSENT (after pushing the event)")
    oe = repo.func("probe.OverridableProbe._emit")
    chk.ob("R16.3", "probe.OverridableProbe._emit:ABSENT-unless-overridden", facts_of(oe).has("self._value = ABSENT", exactly=[]) and [norm(r.value) for r in returns_of(oe.node)] == ["self._value"], oe.where,
           "an overridable probe answers ABSENT unless a subscriber set a value during the push")
    ck = repo.func("interpret.BaseAccumulator.__check.new_fn")
    chk.ob("R16.3", "interpret.BaseAccumulator.__check:failed-check-answers-ABSENT", any(t == "return ABSENT" and any(x.startswith("not ") and "check_captures(" in x for x in c) for t, c, n in facts_of(ck).items), ck.where,
           "a handler whose value conditions fail answers ABSENT (no override, no event)")
    il = [repo.func("interpret.Immediate.log"), repo.func("interpret.Total.log")]
    chk.ob("R16.3", "interpret.*.log:only-called-after-guard", all("value" in [a.arg for a in f.node.args.args] for f in il), il[0].where,
           "values reach Capture.set / accum only through log(), which interact calls after the guard (R16.2)")


def _anc(n):
    cur = getattr(n, "_parent", None)
    while cur is not None and not isinstance(cur, (ast.FunctionDef, ast.Lambda)):
        yield cur
        cur = getattr(cur, "_parent", None)
