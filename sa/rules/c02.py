"""C02 - the stream is exactly the binding history: binding-site coverage, adjacency/order of interactions,
no unvisited slot, the interact pipeline, nothing else reported, instrument-name = delivery-name."""
import ast

from ..astq import Facts, expand, facts_of, is_name, is_self_attr, returns_of, returns_with_conds
from ..cfg import CFG
from ..core import AnalysisError, norm, order, walk_local
from .. import pybinding
from ..evc import Collector
from ..xform import query as Q
from ..xform.terms import (Copy, GenericVisit, Ident, In, InList, Lib, Node, Raise, Rec, Star, SymStr, Visit, children, walk)
from .shared import unvisited_slot_obligations

# binding forms the property lists -> (collector row, handler, how the bound name appears in the template)
FORMS = [
    ("parameter (positional-only)", "param", "visit_FunctionDef", "node.args.posonlyargs[*].arg"),
    ("parameter", "param", "visit_FunctionDef", "node.args.args[*].arg"),
    ("parameter (keyword-only)", "param", "visit_FunctionDef", "node.args.kwonlyargs[*].arg"),
    ("parameter (*args)", "param", "visit_FunctionDef", "node.args.vararg.arg"),
    ("parameter (**kwargs)", "param", "visit_FunctionDef", "node.args.kwarg.arg"),
    ("plain assignment", "assign-name", "visit_Assign", "node.targets[0].id"),
    ("tuple assignment", "assign-tuple", "visit_Assign", "node.targets[0].elts[*].id"),
    ("chained assignment", "assign-chained", "visit_Assign", "node.targets[*].id"),
    ("augmented assignment", "augassign", "visit_AugAssign", "node.target.id"),
    ("annotated assignment", "annassign", "visit_AnnAssign", "node.target.id"),
    ("loop target", "for-target", "visit_For", "node.target.id"),
    ("loop target (tuple)", "for-target", "visit_For", "node.target.elts[*].id"),
    ("exception name", "except-name", "visit_ExceptHandler", "node.name"),
    ("import ... as", "import", "visit_Import", "node.names[*].asname"),
    ("import", "import", "visit_Import", "node.names[*].name"),
    ("from ... import", "importfrom", "visit_ImportFrom", "node.names[*].name"),
    ("assignment expression", "walrus", "visit_NamedExpr", "node.target.id"),
]
# forms that have no handler of their own: judged by whether the collector accepts the name while nothing reports it
UNHANDLED_FORMS = [
    ("with-target", "with-target", "With", "with cm as w: the name is accepted by the collector (Name store) but no interaction is emitted (no visit_With)"),
    ("list-target assignment", "assign-list", "Assign", "[p, q] = x: the names are accepted by the collector but a List target falls into the pass-through branch of visit_Assign"),
]


def sym_paths(t):
    """Paths of the identifiers used as the symbol of an instrumented (non-meta) interaction."""
    out = set()
    for ix in Q.interacts(t):
        s = ix.symname
        if isinstance(s, Ident):
            out.add(s.path)
        elif isinstance(s, SymStr) and not ix.is_meta():
            for part in s.parts:
                if isinstance(part, Ident):
                    out.add(part.path)       # a component of the identifier (first component of a dotted import)
    return out


def run(repo, chk):
    chk.explanation = (
        "Decides the structural clauses of C02. On the output templates of engine T (all programs, all instrumentation subsets): every binding "
        "form the property lists that the collector accepts is rewritten into an interact call on that very name (R02.1); the interaction "
        "is the stored value itself or directly follows the original binding, before any other user statement, and all prologue "
        "interactions precede the body (R02.2); no expression slot that may hold a walrus is emitted unvisited (R02.3); interactions "
        "are emitted only for the stored target's own identifier or a meta variable and never inside nested scopes (R02.5); the name used "
        "to decide instrumentation equals the name under which events are delivered (R02.6). On interpret.py / probe.py (CFG): interact "
        "intercepts, then guards ABSENT, then logs the value it returns, then triggers; callbacks receive snapshots; Immediate overwrites and "
        "Total accumulates; the emitter pushes exactly the snapshot's values (R02.4). Event values and the 'most recent value' clause at run time are not decided.")
    chk.not_decided += ["values carried by events at run time", "most-recent-value clause for context variables (follows from R02.4 + C04 but is a runtime fact)"]
    chk.assumptions += ["engine T trusted base (see C01)", "binding rows validated by symtable (see C10)"]
    chk.rule("R02.1", "binding-site coverage: each listed binding form that the collector accepts is rewritten into an interact on that name", 15)
    chk.rule("R02.2", "adjacency and order: the interaction is the stored value or directly follows the original binding; prologue interactions precede the body", 8)
    chk.rule("R02.3", "no unvisited slot: expression slots that may contain a walrus are emitted as VISIT(slot)", 5)
    chk.rule("R02.4", "interact pipeline: intercept < ABSENT guard < log < trigger on every path; logged value = returned value; callbacks get snapshots; Immediate sets, Total accumulates; emitter pushes the captured values", 12)
    chk.rule("R02.5", "nothing else is reported: interactions only for the stored target's identifier (plus Key for attribute/subscript stores) or a meta name; nested scopes are left alone", 6)
    chk.rule("R02.6", "the name passed to should_instrument is the name under which the interaction is delivered", 2)

    cls, H, stats = Q.templates(repo, chk.tier)
    chk.analysed["engine_T"] = stats
    pybinding.validate()
    col = Collector(repo)
    rows = {r[0]: r for r in pybinding.ROWS}

    # ---------------- R02.1
    for form, rid, hname, ident in FORMS:
        accepted = col.verdict(rows[rid])["recorded"]
        paths = H.get(hname, [])
        covered = any(ident in sym_paths(p.template) for p in paths if not isinstance(p.template, Raise))
        where = f"ptera/transform.py ({hname})"
        if not accepted:
            chk.ob("R02.1", f"{form}:{ident}", True, where, f"{form}: not accepted by the collector, so no probe can be focused on it (judged under C10)", nontrivial=False)
            continue
        chk.ob("R02.1", f"{form}:{ident}", covered, where,
               f"{form}: the collector accepts the name and {hname} emits interact(<{ident}>, ...)" if covered else
               f"{form}: the collector accepts the name but no template of {hname} reports it ({'no such handler' if not paths else 'no interaction on ' + ident})")
    # dotted import: the name Python binds is the first component
    imp = [p for p in H.get("visit_Import", []) if not isinstance(p.template, Raise)]
    # the rewriter must not make the report depend on whether the imported *module path* contains a dot
    dotted_dropped = any(isinstance(x, Star) and "names[*]" in x.over and
                         any(k.startswith("contains|") and ".name)" in k and ".asname" not in k for dec, items in x.alts for k, v in dec)
                         for p in imp for x in walk(p.template))
    chk.ob("R02.1", "import (dotted):first-component", not dotted_dropped or not col.verdict(rows["import-dotted"])["recorded"], "ptera/transform.py (visit_ImportFrom)",
           "`import os.path` binds `os`: the collector accepts `os` but the rewriter skips every alias containing a dot, so the binding is never reported")
    handler_names = set(H)
    for form, rid, cls_, why in UNHANDLED_FORMS:
        accepted = col.verdict(rows[rid])["recorded"]
        if rid == "with-target":
            handled = "visit_With" in handler_names
        else:
            # a path of visit_Assign where the single target is a List: is there an interaction?
            handled = False
            for p in H.get("visit_Assign", []):
                d = dict(p.decisions)
                if any(k.startswith("kind|node.targets[0]|") and "List" in k.split("|")[2].split(",") and v for k, v in p.decisions):
                    handled = handled or bool(Q.interacts(p.template))
            plain = [p for p in H.get("visit_Assign", []) if not isinstance(p.template, Raise) and not Q.interacts(p.template)
                     and all(not v for k, v in p.decisions if k.startswith("kind|node.targets[0]|"))]
            handled = handled or not plain
        chk.ob("R02.1", f"{form}:reported", handled or not accepted, f"ptera/transform.py ({cls})", why)

    # a tuple target must never be stored as a whole (its names would go unreported at any nesting level the analysis reaches)
    whole_tuple = []
    n_stores = 0
    for hname in ("visit_Assign", "visit_AnnAssign", "visit_For"):
        for p in H.get(hname, []):
            for x, dec in Q.with_decisions(p.template, p.decisions):
                if isinstance(x, Node) and x.cls == "Assign" and not Q.is_interact(x.fields.get("value")):
                    tg = x.fields.get("targets") or []
                    if len(tg) == 1 and isinstance(tg[0], In) and tg[0].ctx == "store":
                        n_stores += 1
                        if "Tuple" in Q.possible_kinds(tg[0], dec):
                            whole_tuple.append(f"{hname}: {tg[0].path} stored whole: {Q.show(x, 120)}")
    chk.ob("R02.1", "tuple-targets:always-decomposed", not whole_tuple and n_stores >= 3, "ptera/transform.py (visit_Assign._decompose)",
           f"in none of the {n_stores} pass-through stores can the target still be a tuple: tuple targets (nested, or one of several chained targets) are decomposed so that each name gets its interaction"
           + (f" -- {sorted(set(whole_tuple))[:2]}" if whole_tuple else ""))

    # ---------------- R02.2
    def first_user_index(stmts):
        for i, (s, dec, star) in enumerate(stmts):
            if isinstance(s, (Visit, In, InList)) and not (isinstance(s, In) and s.path in ("node", "node.body[0]")):
                return i
        return len(stmts)
    for hname, field in (("visit_For", "body"), ("visit_ExceptHandler", "body")):
        bad = []
        for p in H.get(hname, []):
            T = p.template
            if isinstance(T, Raise) or not isinstance(T, Node):
                continue
            body = T.fields.get(field) or []
            if hname == "visit_For" and len(body) == 1 and isinstance(body[0], Node) and body[0].cls == "Try":
                body = body[0].fields.get("body") or []
            flat = Q.stmts_of(body)
            fu = first_user_index(flat)
            late = [i for i, (s, dec, star) in enumerate(flat) if isinstance(s, Node) and s.cls == "Assign" and Q.interacts(s) and i > fu]
            if late:
                bad.append(Q.show(body, 200))
        chk.ob("R02.2", f"{hname}:target-interactions-before-user-body", not bad, f"ptera/transform.py ({hname})",
               "the interactions for the names just bound come before the first user statement of the block" + (f" -- {bad[:1]}" if bad else ""))
    for hname, firstkind in (("visit_AugAssign", "generic"), ("visit_ImportFrom", "node"), ("visit_Import", "node")):
        bad = []
        for p in H.get(hname, []):
            flat = Q.stmts_of(p.template)
            if not flat:
                continue
            s0 = flat[0][0]
            ok0 = (isinstance(s0, GenericVisit)) if firstkind == "generic" else (isinstance(s0, In) and s0.path == "node")
            rest_ok = all(isinstance(s, Node) and s.cls == "Assign" for s, _, _ in flat[1:])
            if not (ok0 and rest_ok):
                bad.append(Q.show(p.template, 200))
        chk.ob("R02.2", f"{hname}:interaction-directly-after-binding", not bad, f"ptera/transform.py ({hname})",
               "the original statement comes first and is followed only by the re-store interactions of the names it binds" + (f" -- {bad[:1]}" if bad else ""))
    for hname in ("visit_Assign", "visit_AnnAssign", "visit_NamedExpr"):
        bad = []
        for p in H.get(hname, []):
            for x in walk(p.template):
                if isinstance(x, Node) and x.cls == "Expr" and Q.is_interact(x.fields.get("value")) and not Q.Interact(x.fields["value"]).is_meta():
                    bad.append(Q.show(x, 160))
        chk.ob("R02.2", f"{hname}:interaction-is-the-stored-value", not bad, f"ptera/transform.py ({hname})",
               "the interaction is the value being stored (no separate, later statement)" + (f" -- {bad[:1]}" if bad else ""))
    roots = [p for p in H.get("visit_FunctionDef", []) if not isinstance(p.template, Raise)]
    bad = []
    for p in roots:
        for x in walk(p.template):
            if isinstance(x, Node) and x.cls in ("Try", "With"):
                body = x.fields.get("body") or []
                flat = Q.stmts_of(body)
                fu = None
                for i, (s, dec, star) in enumerate(flat):
                    if isinstance(s, Visit) and isinstance(s.x, In) and s.x.path.startswith("node.body"):
                        fu = i
                        break
                if fu is None:
                    continue
                after = [s for s, _, _ in flat[fu + 1:] if isinstance(s, Node) and Q.interacts(s)]
                if after:
                    bad.append(Q.show(after[0], 160))
    chk.ob("R02.2", "visit_FunctionDef:prologue-before-body", not bad and bool(roots), "ptera/transform.py (visit_FunctionDef)",
           "all entry interactions (externals, closure variables, parameters) precede the user's body" + (f" -- {bad[:1]}" if bad else ""))

    # ---------------- R02.3
    unvisited_slot_obligations(chk, "R02.3", H, want_expr=True, want_targets=True)

    # ---------------- R02.4
    ia = repo.func("interpret.Interactor.interact")
    g = CFG(ia.node, lambda s: isinstance(s, (ast.Raise, ast.Assert)))
    def nodes_calling(attr):
        return g.find(lambda n: n.kind in ("stmt", "test") and any(isinstance(c, ast.Call) and isinstance(c.func, ast.Attribute) and c.func.attr == attr for c in ast.walk(Q_probe(n))))
    def Q_probe(n):
        return n.stmt.test if n.kind == "test" else n.stmt
    icpt, log, trig = nodes_calling("intercept"), nodes_calling("log"), nodes_calling("trigger")
    rets = [n for n in g.nodes if n.kind == "stmt" and isinstance(n.stmt, ast.Return)]
    ok = bool(icpt and log and trig)
    chk.ob("R02.4", "interpret.Interactor.interact:calls-present", ok, ia.where, f"interact calls intercept ({len(icpt)}), log ({len(log)}) and trigger ({len(trig)})")
    if ok:
        chk.ob("R02.4", "interpret.Interactor.interact:intercept-before-log", all(not g.path_exists(g.entry, l, avoid=icpt) for l in log), ia.where,
               "every path to log passes intercept first (an override is applied before the value is recorded)")
        chk.ob("R02.4", "interpret.Interactor.interact:log-before-trigger", all(not g.path_exists(g.entry, t, avoid=log) for t in trig), ia.where,
               "every path to trigger passes log first (the event carries the value just bound)")
        chk.ob("R02.4", "interpret.Interactor.interact:trigger-on-every-normal-return", all(not g.path_exists(g.entry, r, avoid=trig, labels=("n", "t", "f")) for r in rets) and bool(rets), ia.where,
               "every normal return has triggered (exactly one log/trigger call site, not in a loop)")
        logged = [norm(c.args[0]) for l in log for c in ast.walk(l.stmt) if isinstance(c, ast.Call) and isinstance(c.func, ast.Attribute) and c.func.attr == "log" and c.args]
        returned = [norm(r.stmt.value) for r in rets if r.stmt.value is not None]
        redefs_between = [n for n in g.nodes if n.kind == "stmt" and isinstance(n.stmt, ast.Assign) and any(norm(t) in logged for t in n.stmt.targets)
                          and any(g.path_exists(l, n) for l in log)]
        chk.ob("R02.4", "interpret.Interactor.interact:logged-value-is-returned-value", len(set(logged)) == 1 and set(returned) == set(logged) and not redefs_between, ia.where,
               f"the value logged ({logged}) is the value returned ({returned}) with no redefinition in between")
        chk.ob("R02.4", "interpret.Interactor.interact:single-sites", len(log) == 1 and len(trig) == 1 and not any(isinstance(a, (ast.For, ast.While)) for l in log + trig for a in _anc(l.stmt)),
               ia.where, "one log and one trigger per interaction (exactly one event per binding)")
    cs = repo.func("interpret.BaseAccumulator._call_with_snapshot")
    fnp = cs.node.args.args[2].arg if len(cs.node.args.args) > 2 else "fn"
    calls_fn = [c for c in ast.walk(cs.node) if isinstance(c, ast.Call) and is_name(c.func, fnp)]
    arg_ok = bool(calls_fn) and all(c.args and expand(c.args[0], cs.node) == "{k: cap.snapshot() for k, cap in self.build().items()}" for c in calls_fn)
    chk.ob("R02.4", "interpret.BaseAccumulator._call_with_snapshot:snapshots", arg_ok, cs.where,
           "user callbacks receive {capture: cap.snapshot()} built from the accumulated captures, never the live Capture objects")
    for m in ("trigger", "intercept"):
        fi = repo.func(f"interpret.BaseAccumulator.{m}")
        chk.ob("R02.4", f"interpret.BaseAccumulator.{m}:through-snapshot", facts_of(fi).mentions(f"self._call_with_snapshot(element, self._{m})"), fi.where,
               f"{m} hands the user function a snapshot")
    sn = repo.func("interpret.Capture.snapshot")
    fsn = facts_of(sn)
    caps = fsn.bound_to("Capture(self.element)")
    ok = len(caps) == 1 and fsn.has(f"{caps[0]}.names = list(self.names)", exactly=[]) and fsn.has(f"{caps[0]}.values = list(self.values)", exactly=[]) and fsn.has(f"return {caps[0]}", exactly=[]) \
        and len(returns_of(sn.node)) == 1
    chk.ob("R02.4", "interpret.Capture.snapshot:copies", ok, sn.where,
           "a snapshot is a new Capture with copied name and value lists")
    il, tl = repo.func("interpret.Immediate.log"), repo.func("interpret.Total.log")
    fil, ftl = facts_of(il), facts_of(tl)
    chk.ob("R02.4", "interpret.Immediate.log:overwrites", fil.has("self.getcap(element).set(varname, value)", exactly=[]) and not any(".accum(" in t for t, _, _ in fil.items), il.where,
           "Immediate keeps the latest value per capture")
    chk.ob("R02.4", "interpret.Total.log:accumulates", ftl.has("self.getcap(element).accum(varname, value)", exactly=[]) and not any(".set(" in t for t, _, _ in ftl.items), tl.where,
           "Total keeps every value per capture")
    cset, cacc = repo.func("interpret.Capture.set"), repo.func("interpret.Capture.accum")
    chk.ob("R02.4", "interpret.Capture.set:replaces", facts_of(cset).has("self.names = [varname]", exactly=[]) and facts_of(cset).has("self.values = [value]", exactly=[]), cset.where,
           "Capture.set replaces the stored name and value")
    chk.ob("R02.4", "interpret.Capture.accum:appends", facts_of(cacc).has("self.names.append(varname)", exactly=[]) and facts_of(cacc).has("self.values.append(value)", exactly=[]), cacc.where,
           "Capture.accum appends name and value")
    wl, wt = repo.func("interpret.WorkingFrame.log"), repo.func("interpret.WorkingFrame.trigger")
    fwl, fwt = facts_of(wl), facts_of(wt)
    logs = fwl.find("acc.log(element, self.varname, self.category, value)", exactly=[])
    chk.ob("R02.4", "interpret.WorkingFrame.log:every-matching-accumulator", len(logs) >= 1 and all(fwl.loops(n) == ["for (element, acc) in self.accumulators"] for n in logs), wl.where,
           "the value is logged into every accumulator registered for this variable (context variables too)")
    trigs = [n for t, c, n in fwt.items if isinstance(n, ast.Call) and t.startswith("acc.trigger(")]
    good = fwt.find("acc.trigger(element)", exactly=["element.tags", "acc.trigger"])
    ok = bool(trigs) and all(any(n is g_ for g_ in good) for n in trigs) and all(fwt.loops(n) == ["for (element, acc) in self.accumulators"] for n in trigs)
    chk.ob("R02.4", "interpret.WorkingFrame.trigger:focus-only", ok, wt.where,
           "only elements carrying a focus tag trigger an event")
    em = repo.func("probe.Probe._emit")
    fem = facts_of(em)
    dp = em.node.args.args[1].arg
    ok = fem.has(f"self._push({dp})", exactly=[]) and fem.has(f"{dp} = {{name: cap.value for name, cap in {dp}.items()}}", exactly=["not self._raw"]) \
        and len([1 for t, _, n in fem.items if isinstance(n, (ast.Assign, ast.AugAssign)) and t.startswith(f"{dp} ")]) == 1
    chk.ob("R02.4", "probe.Probe._emit:pushes-captured-values", ok, em.where,
           "the event pushed to the stream is {capture name: captured value} (or the raw captures)")

    from .shared import default_of
    for q_ in ("probe.Probe.__init__", "probe.probing", "probe.global_probe"):
        chk.ob("R02.4", f"{q_}:raw-defaults-to-False", default_of(repo, q_, "raw") == "False", repo.func(q_).where,
               f"unless raw=True is asked for, events are the plain {{name: value}} dictionaries (default of `raw` in {q_}: {default_of(repo, q_, 'raw')})")
    # the convenience entry points hand every option on under its own name (raw / probe_type / env decide what a subscriber receives)
    for q_ in ("probe.probing", "probe.global_probe"):
        f_ = repo.func(q_)
        opts = [a.arg for a in f_.node.args.kwonlyargs if a.arg in ("raw", "probe_type", "env")]
        ctor_calls = [n for n in walk_local(f_.node) if isinstance(n, ast.Call) and any(isinstance(a, ast.Starred) and norm(a.value) == (f_.node.args.vararg.arg if f_.node.args.vararg else "selectors") for a in n.args)]
        ok_fw = len(ctor_calls) == 1 and {k.arg: norm(k.value) for k in ctor_calls[0].keywords if k.arg in ("raw", "probe_type", "env")} == {o: o for o in ("raw", "probe_type", "env")} and set(opts) == {"raw", "probe_type", "env"}
        chk.ob("R02.4", f"{q_}:options-handed-through", ok_fw, f_.where,
               f"{q_} builds the probe from its selectors with raw=raw, probe_type=probe_type, env=env (found {[norm(c)[:90] for c in ctor_calls]})")
    from .shared import variant_selection_obligations
    variant_selection_obligations(repo, chk, "R02.6")
    from .shared import value_once_obligations
    value_once_obligations(repo, chk, "R02.2", "every target of one statement (`a = b = next(it)`) reports the one value that was bound", H)
    from .shared import reinstall_obligations
    reinstall_obligations(repo, chk, "R02.6", "a probe activated after another probe on the same variable was released still gets the variant that reports it")
    from ..pairing import contextvars_of, journal_findings
    from ..callgraph import CallGraph
    cg_ = CallGraph(repo)
    for jq in ("probe.Probe._install_tooling", "overlay.autotool"):
        jf = repo.func(jq)
        for journal, res, site, ok_, detail in journal_findings(repo, jf, cg_, contextvars_of(repo)):
            chk.ob("R02.6", f"{jq}:a-refused-activation-leaves-other-probes-instrumented[{journal}:{site}]", ok_, jf.where,
                   f"when another probe's activation is refused, {jq} undoes exactly the tooling that had completed: the counts of functions that active probes share stay where they were, so those probes keep receiving their events" if ok_ else detail)
    from .shared import routing_obligations
    routing_obligations(repo, chk, "R02.4", "record")
    # ---------------- R02.5
    bad = []
    n_ix = 0
    for hname, paths in H.items():
        for p in paths:
            for x in walk(p.template):
                if isinstance(x, Node) and x.cls in ("Assign", "NamedExpr") and Q.is_interact(x.fields.get("value")):
                    ix = Q.Interact(x.fields["value"])
                    if ix.is_meta():
                        bad.append(f"{hname}: meta interaction stored into a user variable: {Q.show(x, 120)}")
                        continue
                    n_ix += 1
                    tg = x.fields.get("targets", [x.fields.get("target")])
                    tg = tg[0] if isinstance(tg, list) and tg else tg
                    sym = ix.symname
                    ok = False
                    if isinstance(tg, Node) and tg.cls == "Name" and isinstance(tg.fields.get("id"), Ident) and isinstance(sym, Ident):
                        ok = tg.fields["id"].path == sym.path
                    elif isinstance(tg, Node) and tg.cls == "Name" and isinstance(tg.fields.get("id"), SymStr) and isinstance(sym, SymStr):
                        ok = repr(tg.fields["id"]) == repr(sym)
                    elif isinstance(tg, In) and isinstance(sym, Ident):
                        ok = sym.path in (tg.path + ".id", tg.path + ".value.id")
                        if sym.path == tg.path + ".value.id":
                            ok = ok and isinstance(ix.key, Node) and ix.key.cls == "Call"
                    if not ok:
                        bad.append(f"{hname}: {Q.show(x, 160)}")
    chk.ob("R02.5", "stored-interactions:symbol-is-the-target", not bad and n_ix >= 10, "ptera/transform.py",
           f"in all {n_ix} stored interactions the reported symbol is the identifier of the store target (with a Key for attribute/subscript stores)" + (f" -- {bad[:2]}" if bad else ""))
    standalone = []
    for hname, paths in H.items():
        for p in paths:
            for x in walk(p.template):
                if isinstance(x, Node) and x.cls == "Expr" and Q.is_interact(x.fields.get("value")):
                    ix = Q.Interact(x.fields["value"])
                    if not ix.is_meta():
                        s = ix.symname
                        v = ix.value
                        ok = isinstance(s, Ident) and s.path == "free[*]" and isinstance(v, Node) and v.cls == "Name" and isinstance(v.fields.get("id"), Ident) and v.fields["id"].path == "free[*]"
                        if not ok:
                            standalone.append(f"{hname}: {Q.show(x, 140)}")
    chk.ob("R02.5", "standalone-interactions:closure-variables-or-meta", not standalone, "ptera/transform.py",
           "standalone (non-storing) interactions are meta events or the read-only report of a closure variable" + (f" -- {standalone[:2]}" if standalone else ""))
    tree = repo.module("transform").tree
    cdef = next(n for n in tree.body if isinstance(n, ast.ClassDef) and n.name == cls)
    hn = {m.name for m in cdef.body if isinstance(m, ast.FunctionDef)}
    for sc in ("FunctionDef", "AsyncFunctionDef", "Lambda", "ClassDef"):
        key = f"visit_{sc}" + ("[nested]" if sc == "FunctionDef" else "")
        paths = H.get(key, [])
        ok = bool(paths) and all(isinstance(p.template, In) and p.template.path == "node" for p in paths)
        chk.ob("R02.5", f"{sc}:nested-scope-left-alone", ok, f"ptera/transform.py (visit_{sc})",
               f"bindings inside a nested {sc} are not rewritten (they are not bindings of this function)" +
               ("" if ok else " -- no handler returning the node unvisited: inner bindings are reported as this function's"))

    # ---------------- R02.6
    mismatches = set()
    n_keyed = 0
    for hname, paths in H.items():
        for p in paths:
            for x, dec in Q.with_decisions(p.template, p.decisions):
                if Q.is_interact(x):
                    ix = Q.Interact(x)
                    if isinstance(ix.key, Node) and ix.key.cls == "Call":
                        n_keyed += 1
                        # delivery name = key.affix_to(sym); decision name = first component of the matching `instrument|...` decision
                        for k, v in dec:
                            if k.startswith("instrument|") and repr(ix.sym.fields.get("value") if isinstance(ix.sym, Node) else ix.sym) == k.split("|")[1]:
                                mismatches.add(f"decided on {k.split('|')[1]} / delivered as {k.split('|')[1]}<attr-or-index>")
    affix = facts_of(repo.func("interpret.Interactor.interact")).mentions("key.affix_to(varname)")
    chk.ob("R02.6", "make_interaction:keyed-target-instrument-name", not (mismatches and affix), "ptera/transform.py (make_interaction) / ptera/interpret.py (Interactor.interact)",
           "for attribute/subscript stores the rewriter decides instrumentation on the base name (`self`) while interact looks handlers up under the affixed name "
           "(`self.x`): under selective probing `K.m > self.x` is never instrumented and never fires" if mismatches and affix else
           f"keyed interactions ({n_keyed}) are decided and delivered under the same name")
    # a store into an item or attribute of v is never reported as a binding of v: every keyed interaction is looked up under the affixed name
    from ..astq import str_parts
    ia = repo.func("interpret.Interactor.interact")
    fia = facts_of(ia)
    vn, kp = ia.node.args.args[1].arg, ia.node.args.args[2].arg
    ren = [(set(c), n) for t, c, n in fia.items if isinstance(n, ast.Assign) and len(n.targets) == 1 and is_name(n.targets[0], vn)]
    wk = [n for t, c, n in fia.items if isinstance(n, ast.Call) and norm(n.func) == "self.work_on"]
    ok = len(ren) == 1 and ren[0][0] == {f"{kp} is not None"} and norm(ren[0][1].value) == f"{kp}.affix_to({vn})" \
        and len(wk) == 1 and wk[0].args and is_name(wk[0].args[0], vn) and order(wk[0]) > order(ren[0][1])
    chk.ob("R02.5", "interpret.Interactor.interact:keyed-interactions-are-looked-up-under-the-affixed-name", ok, ia.where,
           f"whenever a key is given (attribute or item store), the handlers are looked up under `{kp}.affix_to({vn})`, never under the plain name: "
           f"`v[i] = x` is not a binding of `v` (renaming: {[(sorted(c), norm(n)) for c, n in ren]})")
    af = repo.func("transform.Key.affix_to")
    rets = returns_with_conds(af.node)
    sym = af.node.args.args[1].arg
    shapes = {}
    for cs, v, _ in rets:
        parts = str_parts(v) if v is not None else None
        shapes[" and ".join(sorted(cs))] = parts
    ok = bool(rets) and all(parts is not None and parts[0] == "{" + sym + "}" and len(parts) >= 3 and any(q_.startswith("{self.value") or q_.startswith("{repr(self.value") for q_ in parts[1:])
                            for parts in shapes.values()) and {"self.type == 'attr'", "self.type == 'index'"} <= {c for k in shapes for c in k.split(" and ")}
    chk.ob("R02.5", "transform.Key.affix_to:every-key-kind-extends-the-name", ok, af.where,
           f"for both key kinds the delivered name is the variable's name followed by the key, so it can never equal a plain variable name: {shapes}")
    si = repo.func(f"transform.{cls}.should_instrument")
    chk.ob("R02.6", "should_instrument:same-predicate-as-delivery", facts_of(si).mentions("check_element(el, varname, evaluated_ann)") and
           facts_of(repo.func("interpret.WorkingFrame.__init__")).mentions("check_element(element, varname, category)"), si.where,
           "instrumentation and delivery use the same predicate check_element(element, name, category)")


def _anc(n):
    cur = getattr(n, "_parent", None)
    while cur is not None and not isinstance(cur, (ast.FunctionDef, ast.Lambda)):
        yield cur
        cur = getattr(cur, "_parent", None)
