"""C04 - overriding equals substitution: value slot evaluated once, the stored value is the interact result,
closure variables are not overridable, declining leaves the value untouched, activation order is preserved."""
import ast

from ..astq import compare_normal, conds, expand, facts_of, is_name, is_self_attr, iter_text, names_in, returns_of
from ..cfg import CFG
from ..core import order, AnalysisError, norm, walk_local
from ..xform import query as Q
from ..xform.terms import (Copy, GenericVisit, Ident, In, InList, Lib, Node, Raise, Rec, Star, SymStr, Visit, children, walk)

VALUE_HANDLERS = {"visit_Assign": "value", "visit_AnnAssign": "value", "visit_NamedExpr": "value", "visit_Return": "value", "visit_Yield": "value"}


def parents(t, parent=None, field=None):
    """Yield (term, parent node, field name) over a template."""
    yield t, parent, field
    if isinstance(t, Node):
        for k, v in t.fields.items():
            yield from parents(v, t, k)
    elif isinstance(t, Star):
        for dec, items in t.alts:
            for it in items:
                yield from parents(it, parent, field)
    elif isinstance(t, (list, tuple)):
        for it in t:
            yield from parents(it, parent, field)
    elif isinstance(t, (Visit, GenericVisit, Copy)):
        yield from parents(t.x, parent, field)


def run(repo, chk):
    chk.explanation = (
        "Decides the structural clauses of C04. On the output templates (all programs, all binding forms, all instrumentation subsets): "
        "the right-hand side slot is evaluated exactly once whether or not the binding is instrumented (R04.1); every overridable "
        "interaction's result is what reaches the user-visible store / return / resumed yield -- never computed and discarded (R04.2); the "
        "closure-variable interaction is a non-storing statement with overridable=False (R04.3). On interpret.py / overlay.py: an override "
        "of a non-overridable variable raises before anything is logged; the value returned by interact is the original argument unless "
        "an intercept returned something other than ABSENT, and the last such intercept wins (R04.4); handler pairs are only ever appended, "
        "so 'last wins' means 'most recently activated wins' (R04.5). Equivalence with a substituted twin program is not decided.")
    chk.not_decided += ["equivalence with the substituted twin program", "which bindings a given override function declines"]
    chk.assumptions += ["engine T trusted base (see C01)"]
    chk.rule("R04.1", "the value slot is evaluated exactly once on instrumented and non-instrumented paths alike", 5)
    chk.rule("R04.2", "the stored value is the interact result: every overridable interaction is consumed by the store / return / yield it belongs to; all binding interactions are overridable", 3)
    chk.rule("R04.3", "closure variables: standalone interaction with overridable=False; interact raises OverrideException before log/trigger/return when an intercept answers", 2)
    chk.rule("R04.4", "declining leaves the value untouched: reaching definitions of the returned value = {argument, intercept result under `is not ABSENT`}; intercept keeps the last non-ABSENT answer", 3)
    chk.rule("R04.6", "override plumbing: tweak/rewrite build one Immediate(intercept=...) per selector with the value bound at construction (no late-binding closure over the loop variable); an overridable probe answers with the value set by override()/koverride() during the push, else ABSENT", 5)
    chk.rule("R04.5", "activation order is preserved up to the point of choice: collections are only extended at the end, in activation order", 3)

    cls, H, stats = Q.templates(repo, chk.tier)
    chk.analysed["engine_T"] = stats

    # ---------------- R04.1
    for hname, field in VALUE_HANDLERS.items():
        for p in H.get(hname, []):
            if isinstance(p.template, Raise):
                continue
            d = dict(p.decisions)
            if d.get(f"present|node.{field}") is False:
                continue
            n = Q.count_slot(p.template, lambda s: s.path == f"node.{field}")
            instr = any(k.startswith("instrument|") and v for k, v in p.decisions)
            tag = "instrumented" if instr else "plain"
            chk.ob("R04.1", f"{hname}:{field}:once[{tag}]" if n == 1 else f"{hname}:{field}:evaluated-{n}-times[{tag}]", n == 1, f"ptera/transform.py ({hname})",
                   f"the right-hand side of {hname[6:]} is evaluated {n} time(s) on a {tag} path", nontrivial=(n != 1) or True)
            chk.count("value-slot paths")

    # ---------------- R04.2
    discarded, consumed, not_overridable = [], 0, []
    for hname, paths in H.items():
        for p in paths:
            for t, par, field in parents(p.template):
                if Q.is_interact(t):
                    ix = Q.Interact(t)
                    over = Q.const(ix.overridable)
                    meta = ix.is_meta()
                    name = ix.symname if isinstance(ix.symname, str) else None
                    is_free = isinstance(ix.symname, Ident) and ix.symname.path == "free[*]"
                    if par is not None and par.cls == "Expr":
                        if not meta and not is_free:
                            discarded.append(f"{hname}: result of interact({ix.symname!r}) is discarded")
                        elif name in ("#value", "#yield", "#receive"):
                            discarded.append(f"{hname}: result of interact({name}) is discarded")
                    elif par is not None and (par.cls, field) in (("Assign", "value"), ("NamedExpr", "value"), ("Return", "value"), ("Yield", "value"), ("Call", "args"), ("AnnAssign", "value")):
                        consumed += 1
                        if par.cls == "Call" and not Q.is_interact(par):
                            discarded.append(f"{hname}: interact result passed to {Q.show(par.fields.get('func'), 40)}")
                    elif par is None and hname == "visit_Yield":
                        consumed += 1       # the whole yield expression is replaced by interact(#receive, ...)
                    else:
                        discarded.append(f"{hname}: interact({ix.symname!r}) in unexpected position {par.cls if par else None}.{field}")
                    if not meta and not is_free and over is not True:
                        not_overridable.append(f"{hname}: interact({ix.symname!r}) has overridable={over!r}")
                    if name in ("#value", "#yield", "#receive") and over is not True:
                        not_overridable.append(f"{hname}: interact({name}) has overridable={over!r}")
    chk.ob("R04.2", "interactions:result-is-what-gets-stored", not discarded and consumed >= 20, "ptera/transform.py",
           f"all {consumed} overridable interactions are the value of the store / return / yield they belong to" + (f" -- {sorted(set(discarded))[:3]}" if discarded else ""))
    chk.ob("R04.2", "interactions:bindings-are-overridable", not not_overridable, "ptera/transform.py",
           "every interaction that stores into a user variable (incl. attribute/subscript stores), #value, #yield and #receive is overridable" + (f" -- {sorted(set(not_overridable))[:3]}" if not_overridable else ""))
    # instrumented store: the value of the user-visible store IS the interaction
    raw_when_instrumented = []
    for hname in ("visit_Assign", "visit_AnnAssign", "visit_NamedExpr", "visit_For", "visit_ExceptHandler", "visit_ImportFrom", "visit_AugAssign", "visit_FunctionDef"):
        for p in H.get(hname, []):
            for x, dec in Q.with_decisions(p.template, p.decisions):
                if isinstance(x, Node) and x.cls in ("Assign", "NamedExpr"):
                    tg = x.fields.get("targets", [x.fields.get("target")])
                    tg = tg[0] if isinstance(tg, list) and tg else tg
                    name = None
                    if isinstance(tg, Node) and tg.cls == "Name" and isinstance(tg.fields.get("id"), (Ident, SymStr)):
                        name = repr(tg.fields["id"])
                    elif isinstance(tg, In):
                        name = f"ID({tg.path}.id)"
                    if name is None:
                        continue
                    want = [v for k, v in dec if k.startswith("instrument|") and k.split("|")[1] == name]
                    if want and want[-1] and not Q.is_interact(x.fields.get("value")):
                        raw_when_instrumented.append(f"{hname}: {Q.show(x, 140)}")
    chk.ob("R04.2", "instrumented-store:value-is-interact", not raw_when_instrumented, "ptera/transform.py",
           "whenever a name is selected for instrumentation, the store of that name takes the interaction's result" + (f" -- {raw_when_instrumented[:2]}" if raw_when_instrumented else ""))
    rets = [p for p in H.get("visit_Return", []) if dict(p.decisions).get("instrument|'#value'|None")]
    chk.ob("R04.2", "return:returned-value-is-interact", bool(rets) and all(isinstance(p.template, Node) and p.template.cls == "Return" and Q.is_interact(p.template.fields.get("value")) for p in rets),
           "ptera/transform.py (visit_Return)", "the function returns what interact('#value', ...) returns (an override of the return value is effective)")
    ys = [p for p in H.get("visit_Yield", []) if dict(p.decisions).get("instrument|'#yield'|Name(LIB(exit_tag):Load)")]
    ok = bool(ys)
    for p in ys:
        yn = [x for x in walk(p.template) if isinstance(x, Node) and x.cls == "Yield"]
        ok = ok and len(yn) == 1 and Q.is_interact(yn[0].fields.get("value"))
    chk.ob("R04.2", "yield:yielded-value-is-interact", ok, "ptera/transform.py (visit_Yield)", "the generator yields what interact('#yield', ...) returns")

    from .shared import routing_obligations
    routing_obligations(repo, chk, "R04.4", "offer")
    from .shared import fork_own_list_obligations
    fork_own_list_obligations(repo, chk, "R04.6", "an override activated through `ov.tweaking(..)` / `ov.rewriting(..)` ends with its block; it is not remembered by `ov` and by every later fork")
    from .shared import activation_integrity_obligations
    activation_integrity_obligations(repo, chk, "R04.4", "overriding probes (an override whose function was untooled by someone else's refused activation silently stops substituting)")
    from .shared import call_aggregates
    hv_, ok_hv_ = call_aggregates(repo, "hasval")
    chk.ob("R04.4", "selector.Call.hasval:an-override-declines-under-conditions-on-nested-calls-too", ok_hv_, hv_.where,
           "whether an override handler is wrapped by the selector's value check is decided by Call.hasval over the captures AND the child calls: "
           "an override on `total > weight(scale=2) > w` declines (answers ABSENT) where the condition on the inner call does not hold")
    # ---------------- R04.3
    free_ix = [(p, ix, par) for p in H.get("visit_FunctionDef", []) for t, par, f in parents(p.template) if Q.is_interact(t)
               for ix in [Q.Interact(t)] if isinstance(ix.symname, Ident) and ix.symname.path == "free[*]"]
    chk.ob("R04.3", "closure-variable:interaction-present", bool(free_ix), "ptera/transform.py (visit_FunctionDef)", "closure variables are reported at entry")
    chk.ob("R04.3", "closure-variable:not-overridable", bool(free_ix) and all(Q.const(ix.overridable) is False for p, ix, par in free_ix), "ptera/transform.py (make_interaction)",
           "the closure-variable interaction is emitted with overridable=False")
    chk.ob("R04.3", "closure-variable:no-store", bool(free_ix) and all(par is not None and par.cls == "Expr" for p, ix, par in free_ix), "ptera/transform.py (make_interaction)",
           "the closure-variable interaction is a statement of its own: nothing is stored (the cell is never rebound)")
    ia = repo.func("interpret.Interactor.interact")
    g = CFG(ia.node, lambda s: isinstance(s, (ast.Raise, ast.Assert)))
    raises = [n for n in g.nodes if n.kind == "stmt" and isinstance(n.stmt, ast.Raise) and "OverrideException" in norm(n.stmt)]
    ok = False
    params = [a.arg for a in ia.node.args.args]
    vname = params[4] if len(params) >= 6 else "value"
    ovr = params[5] if len(params) >= 6 else "overridable"
    frdef = [n for n in walk_local(ia.node) if isinstance(n, ast.Assign) and len(n.targets) == 1 and isinstance(n.targets[0], ast.Name) and isinstance(n.value, ast.Call)
             and isinstance(n.value.func, ast.Attribute) and n.value.func.attr == "intercept"]
    FR = frdef[0].targets[0].id if len(frdef) == 1 else "<result of intercept>"
    if len(raises) == 1:
        logs = g.find(lambda n: n.kind == "stmt" and (".log(" in n.text() or ".trigger(" in n.text()))
        before = all(not g.path_exists(l, raises[0]) for l in logs)
        ok = sorted(set(conds(raises[0].stmt, ia.node))) == sorted([f"not {ovr}", f"{FR} is not ABSENT"]) and before
    chk.ob("R04.3", "interpret.Interactor.interact:override-of-non-overridable-raises", ok, ia.where,
           "when an intercept answers for a non-overridable variable, OverrideException is raised before anything is logged or triggered")

    # ---------------- R04.4
    defs = [n for n in walk_local(ia.node) if isinstance(n, ast.Assign) and any(is_name(t, vname) for t in n.targets)]
    ok = len(defs) == 1 and is_name(defs[0].value, FR)
    guard = None
    if ok:
        guard = sorted(set(conds(defs[0], ia.node)))
        ok = f"{FR} is not ABSENT" in guard and set(guard) <= {f"{FR} is not ABSENT", ovr}
    chk.ob("R04.4", "interpret.Interactor.interact:value-redefined-only-by-intercept-result", ok, ia.where,
           f"`{vname}` is reassigned only by `{vname} = {FR}` under `{FR} is not ABSENT` (conditions found: {guard})")
    r = returns_of(ia.node)
    chk.ob("R04.4", "interpret.Interactor.interact:returns-value", len(r) == 1 and is_name(r[0].value, vname), ia.where, f"interact returns `{vname}` (the argument unless overridden)")
    chk.ob("R04.4", "interpret.Interactor.interact:intercept-sees-original", len(frdef) == 1 and [norm(a_) for a_ in frdef[0].value.args] == [vname] and not conds(frdef[0], ia.node)
           and not any(order(d) < order(frdef[0]) for d in defs), ia.where,
           "the intercept is asked once, with the original value as the tentative value")
    # x += e keeps the user's own statement (in-place semantics of +=, |= ... on mutable objects) and reports / overrides the result afterwards
    from ..xform.terms import GenericVisit as _GV, In as _In
    bad_aug = []
    for p_ in H.get("visit_AugAssign", []):
        tops_ = [x for x, _, _ in Q.stmts_of(p_.template)]
        t0_ = tops_[0] if tops_ else None
        if not (isinstance(t0_, _GV) and isinstance(t0_.x, _In) and t0_.x.path == "node"):
            bad_aug.append(Q.show(p_.template, 140))
    chk.ob("R04.2", "visit_AugAssign:the-original-augmented-assignment-runs-first", bool(H.get("visit_AugAssign")) and not bad_aug, "ptera/transform.py (visit_AugAssign)",
           "an instrumented `x += e` still executes `x += e` itself (so a list aliased elsewhere is extended in place) and then stores what interact returns: declining leaves the "
           "binding as the original program made it" + (f" -- {bad_aug[:1]}" if bad_aug else ""))
    from .shared import intercept_combination_obligations, registration_obligations
    intercept_combination_obligations(repo, chk, "R04.4")
    # ---------------- R04.5
    pl = repo.func("overlay.HandlerCollection.plus")
    r = returns_of(pl.node)
    ok = False
    if len(r) == 1 and isinstance(r[0].value, ast.Call) and r[0].value.args:
        a = r[0].value.args[0]
        param = pl.node.args.args[1].arg
        if isinstance(a, ast.BinOp) and isinstance(a.op, ast.Add):
            ok = norm(a.left) == "self.handler_pairs" and is_name(a.right, param)
        elif isinstance(a, ast.List) and len(a.elts) == 2 and all(isinstance(e, ast.Starred) for e in a.elts):
            ok = norm(a.elts[0].value) == "self.handler_pairs" and is_name(a.elts[1].value, param)
    chk.ob("R04.5", "overlay.HandlerCollection.plus:new-pairs-after-existing", ok, pl.where, "plus places the newly activated pairs after the existing ones")
    from .proceed_shape import proceed_shape
    P = proceed_shape(repo)
    pr = P.pr
    ok = P.inner is not None and len(P.keeps) == 1 and len(P.pushes) == 1 and not P.others and len(P.inits) == 1
    chk.ob("R04.5", "overlay.HandlerCollection.proceed:order-preserving", ok, pr.where,
           f"the inner collection is filled by appending, in the iteration order of the current pairs (other uses of the list: {[norm(getattr(o, '_parent', o)) for o in P.others][:3]})")
    ok = ok and order(P.keeps[0]) < order(P.pushes[0]) and all(any(c is x for x in ast.walk(P.loop)) for c in P.keeps + P.pushes)
    chk.ob("R04.5", "overlay.HandlerCollection.proceed:children-inserted-at-owner-position", ok, pr.where,
           "the children of a matching selector go into the same ordered list, at the position of their owner: an older call-path override stays older than a newer flat one in the callee "
           "(a separate list appended at the end would reverse 'most recently activated wins')")
    registration_obligations(repo, chk, "R04.5")
    en = repo.func("overlay.BaseOverlay.__enter__")
    chk.ob("R04.5", "overlay.BaseOverlay.__enter__:handlers-in-order", facts_of(en).mentions("([(h.selector, h) for h in self.handlers])"), en.where,
           "an overlay contributes its handlers in the order they were added")


    # ---------------- R04.6
    from .shared import late_bound
    for m in ("tweak", "rewrite"):
        fi = repo.func(f"overlay.Overlay.{m}")
        lb = late_bound(fi.node)
        calls = [c for c in ast.walk(fi.node) if isinstance(c, ast.Call) and is_name(c.func, "Immediate")]
        ok = not lb and len(calls) == 1 and any(k.arg == "intercept" for k in calls[0].keywords) and is_name(calls[0].args[0], "sel")
        chk.ob("R04.6", f"overlay.Overlay.{m}:one-intercept-per-selector-bound-at-construction", ok, fi.where,
               f"{m}() builds Immediate(selector, intercept=...) for every entry, each closure holding its own value" + (f" -- {lb}" if lb else ""))
    from .shared import default_of
    for q_ in ("overlay.Overlay.rewrite", "overlay.Overlay.rewriting"):
        chk.ob("R04.6", f"{q_}:full-defaults-to-False", default_of(repo, q_, "full") == "False", repo.func(q_).where,
               f"a rewriter function receives the plain values of the captured variables unless full=True is asked for (default of `full` in {q_}: {default_of(repo, q_, 'full')})")
    rw = repo.func("overlay.Overlay.rewrite")
    # whatever the wrapper is called and wherever it is defined: the call that wraps each rewriter passes the caller's `full`
    imm = [c for c in ast.walk(rw.node) if isinstance(c, ast.Call) and is_name(c.func, "Immediate")]
    passes = [kw_.value for c in imm for kw_ in c.keywords if kw_.arg == "intercept" and isinstance(kw_.value, ast.Call)]
    chk.ob("R04.6", "overlay.Overlay.rewrite:full-flag-handed-to-the-wrapper", bool(passes) and all(any(k.arg == "full" and is_name(k.value, "full") for k in c.keywords) or
           (len(c.args) == 2 and is_name(c.args[1], "full")) for c in passes), rw.where, "the wrapper around each rewriter is told the caller's `full` flag")
    oe = repo.func("probe.OverridableProbe._emit")
    foe = facts_of(oe)
    rs_, ps_, rt_ = foe.find("self._value = ABSENT", exactly=[]), [n for t, c, n in foe.starting("super()._emit(") if isinstance(n, ast.Call) and not c], foe.find("return self._value", exactly=[])
    ok = len(rs_) == 1 and len(ps_) == 1 and len(rt_) == 1 and order(rs_[0]) < order(ps_[0]) < order(rt_[0]) and len(returns_of(oe.node)) == 1 \
        and len([1 for t, c, n in foe.items if isinstance(n, (ast.Assign, ast.AugAssign)) and t.startswith("self._value")]) == 1
    chk.ob("R04.6", "probe.OverridableProbe._emit:answers-value-set-during-push", ok, oe.where,
           "the emitter resets the slot to ABSENT, pushes the event (subscribers run synchronously) and answers with whatever override() stored, ABSENT meaning 'decline'")
    for m, expr in (("override", "setter(data)"), ("koverride", "setter(**data)")):
        fi = repo.func(f"probe.OverridableProbe.{m}")
        subs = [r.value.args[0] for r in returns_of(fi.node) if isinstance(r.value, ast.Call) and norm(r.value.func) == "self.subscribe" and len(r.value.args) == 1]
        inner = [d for d in ast.walk(fi.node) if isinstance(d, ast.FunctionDef) and d is not fi.node and len(subs) == 1 and is_name(subs[0], d.name)]
        ok = len(returns_of(fi.node)) == 1 and len(inner) == 1 and len(inner[0].args.args) == 1 and \
            [norm(n) for n in inner[0].body if not (isinstance(n, ast.Expr) and isinstance(n.value, ast.Constant))] == [f"self._root._value = {expr.replace('data', inner[0].args.args[0].arg)}"]
        chk.ob("R04.6", f"probe.OverridableProbe.{m}:stores-into-root-slot", ok, fi.where, f"{m}() subscribes a function that stores {expr} into the root probe's slot")
    om = repo.func("probe.OverridableProbe._make_rule")
    chk.ob("R04.6", "probe.OverridableProbe._make_rule:emitter-is-the-intercept", facts_of(om).mentions("Immediate(sel, intercept=self._make_emitter(sel), pass_info=True)"), om.where,
           "the probe's emitter is installed as the intercept of an Immediate accumulator")
