"""C11 - tag selectors capture exactly the tagged bindings: decision table of match_tag / check_element, annotation
routing in the templates, one predicate everywhere, set semantics of tag sets."""
import ast

from ..astq import conds, decision_list, expand, facts_of, is_name, is_self_attr, literals, parse_fixture, returns_of, returns_with_conds, split_tests
from ..core import AnalysisError, norm, walk_local
from ..xform import query as Q
from ..xform.terms import (Copy, GenericVisit, Ident, In, InList, Lib, Node, Raise, Rec, Star, SymStr, Visit, children, walk)


def decision_table(fn):
    """A function made of if / elif / else / guard clauses / conditional expressions over returns, as an ordered
    first-match table [(sorted literal texts, returned expression text)] in a canonical form: conditions that merely
    repeat "no earlier row applied" are dropped, and a boolean tail `if c: return False` + `return True` is the row
    `return not c` (so nesting, guard clauses and `return <test>` all read the same)."""
    entries, impure = decision_list(fn)
    if impure:
        raise AnalysisError(f"{fn.name}: statement `{norm(impure[0])[:50]}` not recognised in a decision function")
    rows, implied = [], set()
    for tests, v in entries:
        lits = [x for x in split_tests(tests) if x not in implied]
        while isinstance(v, ast.Call) and is_name(v.func, "bool") and len(v.args) == 1 and not v.keywords:
            v = v.args[0]        # bool(x) as the result of a predicate is x
        val = norm(v)
        # a result that merely restates a condition of its own row (or of an earlier refusal) is that truth value
        if val in lits or val in implied:
            val = "True"
        elif len(literals(v, False)) == 1 and (literals(v, False)[0] in lits or literals(v, False)[0] in implied):
            val = "False"
        rows.append((sorted(set(lits)), val))
        if lits:       # from here on this row did not apply: (given what is already implied) the negation of its own conditions holds
            parsed = [ast.parse(x, mode="eval").body for x in sorted(set(lits))]
            implied |= set(literals(parsed[0] if len(parsed) == 1 else ast.BoolOp(op=ast.And(), values=parsed), False))
    # polarity of the last test: `if not c: A` + `B` is `if c: B` + `A`
    def negative(lit):
        e = ast.parse(lit, mode="eval").body
        return (isinstance(e, ast.UnaryOp) and isinstance(e.op, ast.Not)) or (isinstance(e, ast.Compare) and len(e.ops) == 1 and isinstance(e.ops[0], (ast.IsNot, ast.NotEq, ast.NotIn)))
    if len(rows) >= 2 and rows[-1][0] == [] and len(rows[-2][0]) == 1 and negative(rows[-2][0][0]):
        pos = literals(ast.parse(rows[-2][0][0], mode="eval").body, False)
        if len(pos) == 1:
            rows[-2:] = [(pos, rows[-1][1]), ([], rows[-2][1])]
    # boolean tail
    while len(rows) >= 2 and rows[-1][0] == [] and len(rows[-2][0]) == 1 and {rows[-1][1], rows[-2][1]} == {"True", "False"}:
        lit = rows[-2][0][0]
        if rows[-2][1] == "False":
            lit = literals(ast.parse(lit, mode="eval").body, False)
            if len(lit) != 1:
                break
            lit = lit[0]
        rows[-2:] = [([], lit)]
    return rows


EXPECT_MATCH_TAG = [
    (["to_match is None"], "True"),
    (["tg is None"], "False"),
    (["isinstance(tg, TagSet)"], "any((cat == to_match for cat in tg.members))"),
    ([], "tg == to_match"),
]
EXPECT_CHECK_ELEMENT = [
    (["el.name != name", "el.name is not None"], "False"),
    ([], "match_tag(el.category, category)"),
]


def member_sources(fn):
    """What the set handed to TagSet(...) in `fn` is made of, whatever the spelling (set() + update, set display with unpacking, union):
    -> ({(condition, "each of" | "the item", source text)}, None) or (None, reason)."""
    from ..astq import single_defs
    rets = [n for n in walk_local(fn) if isinstance(n, ast.Return) and isinstance(n.value, ast.Call) and is_name(n.value.func, "TagSet") and len(n.value.args) == 1]
    if len(rets) != 1:
        return None, f"{len(rets)} returns of TagSet(...)"
    defs = single_defs(fn)
    out = set()

    def cond_join(c, extra):
        return extra if not c else (c if not extra else f"{c} and {extra}")

    def items(e, c):
        """e evaluates to an iterable whose items all go into the set"""
        if isinstance(e, ast.IfExp):
            return items(e.body, cond_join(c, norm(e.test))) and items(e.orelse, cond_join(c, f"not {norm(e.test)}"))
        if isinstance(e, (ast.Set, ast.Tuple, ast.List)):
            return all(one(x, c) for x in e.elts)
        if isinstance(e, ast.Name) and e.id in defs:
            return items(defs[e.id], c)
        if isinstance(e, ast.Call) and isinstance(e.func, ast.Name) and e.func.id in ("set", "frozenset", "list", "tuple") and len(e.args) <= 1 and not e.keywords:
            return items(e.args[0], c) if e.args else True
        if isinstance(e, ast.BinOp) and isinstance(e.op, ast.BitOr):
            return items(e.left, c) and items(e.right, c)
        if isinstance(e, ast.Call) and isinstance(e.func, ast.Attribute) and e.func.attr == "union" and not e.keywords:
            return items(e.func.value, c) and all(items(a, c) for a in e.args)
        if isinstance(e, (ast.Attribute, ast.Name)):
            out.add((c or "always", "each of", norm(e)))
            return True
        return False

    def one(x, c):
        if isinstance(x, ast.Starred):
            return items(x.value, c)
        out.add((c or "always", "the item", norm(x)))
        return True
    arg = rets[0].value.args[0]
    if isinstance(arg, ast.Name) and arg.id not in defs:
        # an accumulator: M = set() ... M.update(E) / M.add(x) ... return TagSet(M)
        M = arg.id
        uses = [n for n in ast.walk(fn) if isinstance(n, ast.Name) and n.id == M]
        seen = 1
        for st in walk_local(fn):
            c = " and ".join(sorted(conds(st, fn))) if isinstance(st, (ast.Assign, ast.Expr)) else ""
            if isinstance(st, ast.Assign) and len(st.targets) == 1 and is_name(st.targets[0], M):
                if c or not items(st.value, ""):
                    return None, f"{M} starts as {norm(st.value)}"
                seen += 1
            elif isinstance(st, ast.Expr) and isinstance(st.value, ast.Call) and isinstance(st.value.func, ast.Attribute) and is_name(st.value.func.value, M) \
                    and st.value.func.attr in ("update", "add") and len(st.value.args) == 1 and not st.value.keywords:
                good = items(st.value.args[0], c) if st.value.func.attr == "update" else one(st.value.args[0], c)
                if not good:
                    return None, f"unrecognised contribution {norm(st)}"
                seen += 1
        if seen != len(uses):
            return None, f"{M} is used in other ways"
        return out, None
    if not items(arg, ""):
        return None, f"unrecognised set expression {norm(arg)}"
    return out, None


def run(repo, chk):
    chk.explanation = (
        "Decides the structural clauses of C11. The matching rule is read as a decision table from tags.match_tag and selector.check_element "
        "(path enumeration over {no tag requested, untagged variable, tag set, single tag}; no solver) and compared with the table the property "
        "states. On the output templates: parameter interactions carry the parameter's annotation, annotated assignments carry theirs, every "
        "other binding form carries None ('a re-assignment without annotation does not carry the tag'); '@A & @B' strings are routed through "
        "get_tags. One predicate (check_element) decides instrumentation, delivery, expansion of generic captures / function tags and "
        "verification. Tag sets are frozensets built by union, compared by members. Which variables a user function tags is a runtime fact (eval of annotations).")
    chk.not_decided += ["which variables a given function tags (annotations are evaluated at run time)", "raw-mode naming of events"]
    chk.assumptions += ["engine T trusted base (see C01)"]
    chk.rule("R11.1", "decision table: no tag requested => match; untagged variable => no match; tag set => membership; otherwise equality; check_element = name test then tag test", 7)
    chk.rule("R11.2", "annotation routing: parameters and annotated assignments pass their annotation to interact, every other binding passes None; '@' strings become get_tags(...) calls", 8)
    chk.rule("R11.3", "one predicate: instrumentation, delivery, selector fitting and verification all use check_element; the function tag is read from the return annotation", 5)
    chk.rule("R11.4", "set semantics: TagSet.members is a frozenset produced by union; equality compares members; & on tags and tag sets is the same merge", 5)
    chk.rule("R11.5", "the name deciding instrumentation is the name under which the interaction is delivered (shared with C02 R02.6)", 1)

    # fixtures
    fx = parse_fixture("def match_tag(to_match, tg):\n    if to_match is None:\n        return True\n    if tg is None:\n        return False\n    elif isinstance(tg, TagSet):\n        return False\n    else:\n        return tg == to_match\n").body[0]
    chk.fixture("R11.1", "tag sets never match", True, decision_table(fx) != EXPECT_MATCH_TAG)

    # ---------------- R11.1
    mt = repo.func("tags.match_tag")
    rows = decision_table(mt.node)
    for i, exp in enumerate(EXPECT_MATCH_TAG):
        got = rows[i] if i < len(rows) else None
        chk.ob("R11.1", f"tags.match_tag:row{i + 1}:{(exp[0] or ['otherwise'])[-1]}", got == exp, mt.where,
               f"when {' and '.join(exp[0])}: returns {exp[1]}" + ("" if got == exp else f" -- found {got}"))
    chk.ob("R11.1", "tags.match_tag:no-extra-rows", len(rows) == len(EXPECT_MATCH_TAG), mt.where, f"{len(rows)} decision rows")
    ce = repo.func("selector.check_element")
    # read as a truth function of its three tests (whether it is written as an if chain, one boolean expression or a mixture)
    from ..astq import truth_table
    pe, pn, pc = [a.arg for a in ce.node.args.args[:3]] if len(ce.node.args.args) >= 3 else ("el", "name", "category")
    atoms = [f"{pe}.name is not None", f"{pe}.name != {pn}", f"match_tag({pe}.category, {pc})"]
    tt = truth_table(ce.node, atoms)
    named_other = [b for b in tt if b[0] and b[1]]
    rest = [b for b in tt if not (b[0] and b[1])]
    bad1 = [b for b in named_other if tt[b] is not False]
    bad2 = [b for b in rest if tt[b] is not b[2]]
    chk.ob("R11.1", "selector.check_element:row1", not bad1, ce.where, f"an element that names another variable never matches (whatever the tags)" + (f" -- answers {[(b, tt[b]) for b in bad1]}" if bad1 else ""))
    chk.ob("R11.1", "selector.check_element:row2", not bad2, ce.where,
           "otherwise (no name, or this name) the answer is match_tag(requested category, variable's tags)" + (f" -- answers {[(b, tt[b]) for b in bad2]} for (named, other name, tag match)" if bad2 else ""))

    # ---------------- R11.2
    cls, H, stats = Q.templates(repo, chk.tier)
    chk.analysed["engine_T"] = stats
    def ann_kind(ix):
        a = ix.ann
        if isinstance(a, Node) and a.cls == "Constant" and a.fields.get("value") is None:
            return "None"
        if isinstance(a, In):
            return f"slot:{a.path}"
        if isinstance(a, Node) and a.cls == "Call" and Q.is_lib_name(a.fields.get("func"), "get_tags"):
            import re
            src = sorted(set(re.findall(r"ID\((node[^()]*)\)", repr(a))))
            return f"get_tags:{','.join(src)}"
        if Q.is_lib_name(a):
            return f"lib:{a.fields['id'].role}"
        return f"?{Q.show(a, 60)}"
    by_handler = {}
    for hname, paths in H.items():
        for p in paths:
            for x, dec in Q.with_decisions(p.template, p.decisions):
                if Q.is_interact(x):
                    ix = Q.Interact(x)
                    if ix.is_meta():
                        continue
                    s = ix.symname
                    sp = s.path if isinstance(s, Ident) else repr(s)
                    by_handler.setdefault(hname, set()).add((sp, ann_kind(ix)))
    # parameters
    pa = {(s, a) for s, a in by_handler.get("visit_FunctionDef", set()) if s.startswith("node.args.")}
    for cat in ("posonlyargs[*]", "args[*]", "kwonlyargs[*]", "vararg", "kwarg"):
        kinds = {a for s, a in pa if s == f"node.args.{cat}.arg"}
        want = {"None", f"slot:node.args.{cat}.annotation", f"get_tags:node.args.{cat}.annotation.value"}
        chk.ob("R11.2", f"parameter:{cat}:annotation-routed", kinds == want, "ptera/transform.py (generate_interactions)",
               f"parameter interactions carry the parameter's own annotation (None when absent, get_tags(...) for '@' strings): {sorted(kinds)}")
    an = {a for s, a in by_handler.get("visit_AnnAssign", set())}
    chk.ob("R11.2", "annotated-assignment:annotation-routed", an == {"slot:node.annotation", "get_tags:node.annotation.value"}, "ptera/transform.py (visit_AnnAssign)",
           f"annotated assignments carry their own annotation: {sorted(an)}")
    for hname in ("visit_Assign", "visit_For", "visit_ExceptHandler", "visit_ImportFrom", "visit_Import", "visit_AugAssign", "visit_NamedExpr"):
        kinds = {a for s, a in by_handler.get(hname, set())}
        chk.ob("R11.2", f"{hname}:carries-no-tag", kinds <= {"None"}, f"ptera/transform.py ({hname})",
               f"bindings without an annotation pass None as category (a re-assignment does not carry the tag): {sorted(kinds)}")
    ext = {a for s, a in by_handler.get("visit_FunctionDef", set()) if not s.startswith("node.args.")}
    chk.ob("R11.2", "externals-and-closure-variables:carry-no-tag", ext <= {"None"}, "ptera/transform.py (visit_FunctionDef)", f"externals / closure variables pass None: {sorted(ext)}")
    tree = repo.module("transform").tree
    an_fn = repo.func(f"transform.{cls}._ann")
    fa = facts_of(an_fn)
    ap = an_fn.node.args.args[1].arg
    gate = {f"isinstance({ap}, ast.Str)", f"{ap}.s.startswith('@')"}
    # where the get_tags call is built (assigned to the parameter, to a local, or returned directly): always under the gate;
    # everything that is returned is either that call or the annotation as it came in
    built = [(t, set(c), n) for t, c, n in fa.items if isinstance(n, (ast.Assign, ast.Return)) and "self._get('get_tags')" in t]
    holders = {ap} | {n.targets[0].id for t, c, n in built if isinstance(n, ast.Assign) and len(n.targets) == 1 and isinstance(n.targets[0], ast.Name)}
    rets = returns_with_conds(an_fn.node)
    ok = bool(built) and all(gate <= c for t, c, n in built) and bool(rets) \
        and all((isinstance(v, ast.Name) and v.id in holders) or (v is not None and "self._get('get_tags')" in norm(v) and gate <= set(cs)) for cs, v, r in rets) \
        and all(gate <= set(cs) for cs, v, r in rets if isinstance(v, ast.Name) and v.id != ap) \
        and any(isinstance(v, ast.Name) and v.id == ap for cs, v, r in rets)
    chk.ob("R11.2", "_ann:only-@-strings-are-rewritten", ok, an_fn.where, "only string annotations starting with '@' are turned into get_tags calls; anything else is passed through unchanged")
    chk.ob("R11.2", "_ann:splits-on-&-and-strips-@", fa.mentions(f"re.split(' *& *', {ap}.s)") and fa.mentions("ast.Str(s=tag[1:])"), an_fn.where, "'@A & @B' is split on & and each tag name loses its '@'")
    mi = repo.func(f"transform.{cls}.make_interaction")
    table_writes = [n for n in walk_local(mi.node) if isinstance(n, ast.Assign) and norm(n.targets[0]).startswith("self.annotated[")]
    def guarded_by_ann(n):
        return "ann" in conds(n, mi.node) or "ann is not None" in conds(n, mi.node)
    chk.ob("R11.2", "make_interaction:annotation-table-written-only-at-annotated-bindings", bool(table_writes) and all(guarded_by_ann(n) for n in table_writes), mi.where,
           "the per-variable annotation table (what verification and generic captures consult) is written only when the binding carries an annotation: "
           "a later un-annotated re-binding of the same name cannot erase the tag")
    gt = repo.func("tags.get_tags")
    fg = facts_of(gt)
    arg = gt.node.args.vararg.arg if gt.node.args.vararg else "tags"
    lists = fg.bound_to(f"[getattr(tag, tg) if isinstance(tg, str) else tg for tg in {arg}]")
    V = lists[0] if lists else "<the resolved tags>"
    ok = len(lists) == 1 and fg.has(f"return {V}[0]", exactly=[f"len({V}) == 1"]) and fg.has(f"return TagSet({V})", exactly=[f"len({V}) != 1"]) and len(returns_with_conds(gt.node)) == 2
    chk.ob("R11.2", "tags.get_tags:single-vs-set", ok, gt.where,
           "get_tags returns the tag itself for one name and a TagSet for several")

    # ---------------- R11.3
    users = {
        f"transform.{cls}.should_instrument": "instrumentation (code generation)",
        "interpret.WorkingFrame.__init__": "delivery (which accumulators hear an interaction)",
        "overlay.fits_selector": "expansion of generic captures and function tags",
        "selector.Call.problems": "verification",
    }
    for q, role in users.items():
        fi = repo.func(q)
        calls = [c for c in ast.walk(fi.node) if isinstance(c, ast.Call) and is_name(c.func, "check_element")]
        chk.ob("R11.3", f"{q}:uses-check_element", bool(calls), fi.where, f"{role} is decided by check_element ({len(calls)} call(s))")
    si = repo.func(f"transform.{cls}.should_instrument")
    reads = sorted({n.attr for n in ast.walk(si.node) if is_self_attr(n) and isinstance(n.ctx, ast.Load)})
    writes = sorted({norm(t) for n in ast.walk(si.node) if isinstance(n, (ast.Assign, ast.AugAssign)) for t in (n.targets if isinstance(n, ast.Assign) else [n.target])
                     if "self." in norm(t)})
    params = [a.arg for a in si.node.args.args][1:]
    chk.ob("R11.3", "should_instrument:depends-only-on-name-annotation-and-selection", set(reads) <= {"to_instrument", "_evaluate"} and not writes, si.where,
           f"the instrumentation decision reads only the selected elements and the evaluated annotation (self attributes read: {reads}; written: {writes}): "
           "it is decided per binding -- a variable bound several times with different annotations gets a separate decision each time" if set(reads) <= {"to_instrument", "_evaluate"} and not writes else
           f"should_instrument keeps state between bindings (reads {reads}, writes {writes}): the decision for one binding of a name can be reused for another binding with a different annotation")
    ce_calls = [c for c in ast.walk(si.node) if isinstance(c, ast.Call) and is_name(c.func, "check_element")]
    ok = len(ce_calls) == 1 and len(params) == 2 and is_name(ce_calls[0].args[1], params[0]) and \
        any(isinstance(n, ast.Assign) and norm(n.value) == f"self._evaluate({params[1]})" and norm(n.targets[0]) == norm(ce_calls[0].args[2]) for n in ast.walk(si.node))
    chk.ob("R11.3", "should_instrument:predicate-on-this-binding's-name-and-annotation", ok, si.where,
           "check_element is applied to the name and the evaluated annotation of the binding at hand")
    fs = repo.func("overlay.fits_selector")
    ff = facts_of(fs)
    pfn = fs.node.args.args[0].arg
    elt_test = f"check_element(selector.element, {pfn}, {pfn}.__annotations__.get('return'))"
    ok = ff.has("return False", exactly=[f"not {elt_test}"]) and all(elt_test in c for t, c, n in ff.items if isinstance(n, ast.Return) and t != "return False")
    chk.ob("R11.3", "overlay.fits_selector:function-tag-from-return-annotation", ok, fs.where,
           "a tag in function position is matched against the function's return annotation")
    table = (ff.bound_to(f"{pfn}.__ptera_info__") or [f"{pfn}.__ptera_info__"])[0]
    gen = ff.bound_to(f"[var for var, info in {table}.items() if check_element(cap, var, info['annotation'])]")
    ok = len(gen) == 1 and ff.has("return False", when=["cap.name is None", f"not {gen[0]}"]) and ff.has(f"capmap[cap] = {gen[0]}", when=["cap.name is None", gen[0]])
    chk.ob("R11.3", "overlay.fits_selector:generic-capture-expansion", ok, fs.where,
           "a generic capture expands to exactly the variables whose recorded annotation matches (none => the level does not fit)")

    # ---------------- R11.4
    ts = repo.func("tags.TagSet.__init__")
    chk.ob("R11.4", "tags.TagSet.__init__:frozenset", facts_of(ts).has("self.members = frozenset(members)", exactly=[]), ts.where, "members are kept as a frozenset (order and repetition are irrelevant)")
    mg = repo.func("tags._merge")
    fm = facts_of(mg)
    pa, pb = (x.arg for x in mg.node.args.args[:2])
    srcs, why_ = member_sources(mg.node)
    want_ = set()
    for x in (pa, pb):
        want_ |= {(f"isinstance({x}, TagSet)", "each of", f"{x}.members"), (f"not isinstance({x}, TagSet)", "the item", x)}
    ok = srcs == want_
    chk.ob("R11.4", "tags._merge:union", ok, mg.where, "a & b is the union of both sides' members: the set handed to TagSet collects " +
           (", ".join(f"{k} {t} when {c}" for c, k, t in sorted(srcs)) if srcs is not None else f"<not a recognised set construction: {why_}>"))
    eq = repo.func("tags.TagSet.__eq__")
    eq_rets = [(sorted(cs), norm(v)) for cs, v, r in returns_with_conds(eq.node)]
    op_ = eq.node.args.args[1].arg
    eq_ok = eq_rets in ([([], f"isinstance({op_}, TagSet) and {op_}.members == self.members")], [([], f"isinstance({op_}, TagSet) and self.members == {op_}.members")]) \
        or sorted(eq_rets) in (sorted([([f"isinstance({op_}, TagSet)"], f"{op_}.members == self.members"), ([f"not isinstance({op_}, TagSet)"], "False")]),
                               sorted([([f"isinstance({op_}, TagSet)"], f"self.members == {op_}.members"), ([f"not isinstance({op_}, TagSet)"], "False")]))
    chk.ob("R11.4", "tags.TagSet.__eq__:by-members", eq_ok, eq.where, "tag sets are equal iff their members are")
    for c in ("Tag", "TagSet"):
        cd = repo.cls(f"tags.{c}")
        ops = {norm(t): norm(n.value) for n in cd.body if isinstance(n, ast.Assign) for t in n.targets}
        chk.ob("R11.4", f"tags.{c}:and-is-merge", ops.get("__and__") == "_merge" and ops.get("__rand__") == "_merge", f"ptera/tags.py:{cd.lineno}", f"{c}.__and__ = __rand__ = _merge")
    tf_ = repo.func("tags._TagFactory.__getattr__")
    ft = facts_of(tf_)
    nm = tf_.node.args.args[1].arg
    ok = ft.has(f"self._cache[{nm}] = Tag({nm})", exactly=[f"{nm} not in self._cache"]) and ft.has(f"return self._cache[{nm}]", exactly=[]) and len(returns_of(tf_.node)) == 1 \
        and len([1 for t, _, n in ft.items if isinstance(n, (ast.Assign, ast.AugAssign, ast.Delete)) and "self._cache" in t.split("=")[0]]) == 1
    chk.ob("R11.4", "tags._TagFactory:one-object-per-name", ok, tf_.where,
           "tag.X always returns the same Tag object (tags compare by identity)")

    ev = repo.func("transform.PteraTransformer._evaluate")
    evs = [n for n in walk_local(ev.node) if isinstance(n, ast.Call) and is_name(n.func, "eval")]
    init_ = repo.func("transform.PteraTransformer.__init__")
    glb_src = [norm(n.value) for n in walk_local(init_.node) if isinstance(n, ast.Assign) and len(n.targets) == 1 and norm(n.targets[0]) == "self.globals"]
    trf_ = repo.func("transform.transform")
    passed = [norm(k.value) for n in walk_local(trf_.node) if isinstance(n, ast.Call) and norm(n.func) == "PteraTransformer" for k in n.keywords if k.arg in glb_src]
    ok = len(evs) == 1 and len(evs[0].args) == 3 and [norm(a) for a in evs[0].args[1:]] == ["self.globals", "self.globals"] and len(glb_src) == 1 \
        and [expand(ast.parse(p_, mode="eval").body, trf_.node) for p_ in passed] == [f"{trf_.node.args.args[0].arg}.__globals__"]
    chk.ob("R11.2", "_evaluate:annotations-are-evaluated-in-the-function's-own-globals", ok, ev.where,
           f"an annotation is evaluated once, at instrumentation time, in the globals of the function being instrumented (that is where `tag` and the user's tag names live); "
           f"eval(..., {[norm(a) for a in evs[0].args[1:]] if evs else '?'}), self.globals = {glb_src}, handed over as {passed}")
    from .shared import routing_obligations
    routing_obligations(repo, chk, "R11.3", "record")
    from .shared import meta_tag_agreement_obligations
    meta_tag_agreement_obligations(repo, chk, "R11.3")
    from .shared import registration_obligations
    registration_obligations(repo, chk, "R11.3")
    from .shared import annotation_cache_obligations
    annotation_cache_obligations(repo, chk, "R11.2")
    from .shared import activation_integrity_obligations
    activation_integrity_obligations(repo, chk, "R11.5", "tag probes")
    from .shared import variant_selection_obligations
    variant_selection_obligations(repo, chk, "R11.5")      # a tag-restricted wildcard instruments only the bindings carrying its tag: the named captures next to it must stay in the key of the variant
    from .shared import fit_memo_obligations
    fit_memo_obligations(repo, chk, "R11.3", "a selector that names no function (`$v:@T`, `*:@T`) is fitted against each function on its own variable table, never against the table of another function that came before it")
    # ---------------- R11.5
    keyed = False
    for hname, paths in H.items():
        for p in paths:
            for x, dec in Q.with_decisions(p.template, p.decisions):
                if Q.is_interact(x) and isinstance(Q.Interact(x).key, Node) and Q.Interact(x).key.cls == "Call":
                    keyed = True
    affix = facts_of(repo.func("interpret.Interactor.interact")).mentions("key.affix_to(varname)")
    chk.ob("R11.5", "make_interaction:keyed-target-instrument-name", not (keyed and affix), "ptera/transform.py (make_interaction)",
           "attribute/subscript stores are decided under the base name but delivered under the affixed name (see C02 R02.6): a tagged `self.x: @T = v` is never captured by `*:@T` under selective probing")
