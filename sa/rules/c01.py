"""C01 - instrumentation is transparent: slot linearity and order, construct preservation, no synthesised
effects on user values, exception transparency, scope hygiene, declaration order, target-shape totality, closure cells."""
import ast

from ..astq import is_name as is_name_, parse_fixture, returns_of
from ..core import AnalysisError, norm, walk_local
from ..xform import query as Q
from ..xform.terms import (ASDL, EVAL_ORDER, Copy, GenericVisit, Gensym, Ident, In, InList, Lib, Node, Opaque, Raise, Rec, Star, SymStr,
                           Visit, children, walk)

NON_EVAL_TYPES = {"identifier", "string", "int", "constant", "expr_context", "operator"}
EXEMPT_FIELDS = {"type_comment", "type_params", "ctx", "simple", "lineno", "col_offset", "level"}
# expected top-level shape of each handler's output (R01.2)
EXPECT_CLASS = {"visit_For": "For", "visit_ExceptHandler": "ExceptHandler", "visit_Return": "Return", "visit_NamedExpr": "NamedExpr",
                "visit_FunctionDef": "FunctionDef", "visit_Yield": "Yield"}
SCOPE_CLASSES = ["FunctionDef", "AsyncFunctionDef", "Lambda", "ClassDef", "ListComp", "SetComp", "DictComp", "GeneratorExp"]


def overlaps(p, q):
    if p == q:
        return True
    a, b = (p, q) if len(p) < len(q) else (q, p)
    return b.startswith(a) and b[len(a)] in ".["


def effect_free(slot, decisions):
    """A duplicated slot is harmless when it can only be a plain name or a constant on this path."""
    if isinstance(slot, In):
        poss = Q.possible_kinds(slot, decisions)
        if poss and poss <= {"Name", "Constant"}:
            return True
        d = dict(decisions)
        if d.get(f"const-is-str|{slot.path}.value") and poss <= {"Expr"}:
            return True        # the docstring statement
    return False


def payload_fields(cls):
    return [(f, t, q) for f, t, q in ASDL.get(cls, []) if t not in NON_EVAL_TYPES and f not in EXEMPT_FIELDS]


def top_nodes(template):
    """Statement/expression nodes at the top of a handler result (lists flattened, Star alternatives included)."""
    return [x for x, _, _ in Q.stmts_of(template)]


def lib_names(repo):
    """role -> emitted identifier, constant-folded from the `lib` dict literal in transform()."""
    tr = repo.func("transform.transform")
    for n in walk_local(tr.node):
        if isinstance(n, ast.Assign) and any(isinstance(t, ast.Name) and t.id == "lib" for t in n.targets) and isinstance(n.value, ast.Dict):
            out = {}
            for k, v in zip(n.value.keys, n.value.values):
                if isinstance(k, ast.Constant) and isinstance(v, ast.Tuple) and v.elts:
                    first = v.elts[0]
                    if isinstance(first, ast.Constant):
                        out[k.value] = first.value
                    elif isinstance(first, ast.JoinedStr):
                        out[k.value] = "".join(p.value if isinstance(p, ast.Constant) else "{}" for p in first.values)
                    else:
                        out[k.value] = f"<{norm(first)}>"
            return out
    raise AnalysisError("transform.transform: `lib = {...}` table not found")


def run(repo, chk):
    chk.explanation = (
        "Engine T evaluates the source of PteraTransformer's visit_* methods over an abstract input node (abstract interpretation over a "
        "term domain; no ptera code is run) and obtains, per statement form, every output template with the per-binding instrumentation "
        "choice left symbolic. C01 is decided as structural necessary conditions on those templates, for every program, every grammar-legal "
        "target shape and every instrumentation subset at once: each payload slot of the input statement is evaluated exactly once, in the "
        "original order, inside the original construct (R01.1/R01.2); no synthesised operation touches a user value except passing it "
        "through frame.interact (R01.3); synthesised handlers re-raise and only contain interactions (R01.4); synthesised names stay inside "
        "the function's own scope (R01.5); the prologue respects global/nonlocal declarations (R01.6); every legal target shape is handled "
        "(R01.7); closure cells are shared, not copied (R01.8). Observational equality of the two programs is not claimed.")
    chk.not_decided += ["equality of heaps/outputs of original and rewritten program (only necessary structural conditions)", "async def (ptera asserts FunctionDef)"]
    chk.assumptions += ["ast.NodeTransformer.visit dispatch and list splicing (CPython)", "CPython evaluation order per statement form (terms.EVAL_ORDER)",
                        "frame.interact returns its argument when no handler intercepts (C04 R04.4)", "nested targets analysed to depth 2 (quick) / 3 (thorough), deeper levels by the REC summary"]
    chk.rule("R01.1", "slot linearity and order: every payload slot of the input node occurs exactly once along any execution of the template (not dropped, not duplicated/deep-copied) and slots are evaluated in the language's order", 25)
    chk.rule("R01.2", "construct preservation: For->For, ExceptHandler->ExceptHandler, Return->Return, Yield->Yield, NamedExpr->NamedExpr, FunctionDef->FunctionDef with each slot in the field of the same role; AugAssign/Import keep the original statement first; classes without a handler go through generic_visit", 8)
    chk.rule("R01.3", "no synthesised effect on user values: synthesised Subscript/Attribute/Call/BinOp/Compare/Starred nodes have ptera-owned operands only", 10)
    chk.rule("R01.4", "exception transparency: every synthesised handler catches BaseException and ends with a bare raise; synthesised handler/finally bodies hold only standalone interactions", 2)
    chk.rule("R01.5", "scope hygiene: nested scopes are returned unvisited, or every identifier the rewriter can emit inside them is immune to that scope's rules (class-private name mangling)", 6)
    chk.rule("R01.6", "declaration order: a synthesised prologue statement may mention a user name only if no global/nonlocal statement of the body can declare it", 2)
    chk.rule("R01.7", "target-shape totality: every grammar-legal target kind of every binding context ends in a template, not in NotImplementedError or in a node shape compile() rejects", 4)
    chk.rule("R01.9", "no local is mistaken for an external: every construct that binds a name in the function scope is known to the collector (recorded as assigned, or as the name of a nested definition), otherwise reading the name makes the prologue fetch it from the globals at entry and the call fails", 15)
    chk.rule("R01.10", "an exception of the user's function is never swallowed by the machinery around it: no __exit__ of a ptera context manager returns a value (a truthy result would suppress the exception in flight)", 3)
    chk.rule("R01.11", "instrumenting leaves the module's globals as it found them: the binding of the function's own name, which exec() rebinds while the instrumented copy is built, is restored -- and removed again when there was none (methods, nested functions)", 2)
    chk.rule("R01.8", "closure cells are shared, not copied: the function handed back is built over fn.__closure__, never over cell_contents; every variant references every closure variable", 2)

    cls, H, stats = Q.templates(repo, chk.tier)
    chk.analysed["engine_T"] = stats
    chk.analysed["transformer_class"] = cls
    tree = repo.module("transform").tree
    cdef = next(n for n in tree.body if isinstance(n, ast.ClassDef) and n.name == cls)
    handler_names = {m.name for m in cdef.body if isinstance(m, ast.FunctionDef) and m.name.startswith("visit_")}

    # ------------------------------------------------------------------ R01.1
    for hname, paths in sorted(H.items()):
        if hname.endswith("[nested]"):
            continue
        kind = hname[len("visit_"):]
        pf = payload_fields(kind)
        for p in paths:
            if isinstance(p.template, Raise):
                continue
            T = p.template
            dec = dict(p.decisions)
            chk.count("templates")
            whole = any(isinstance(x, In) and x.path == "node" for x in walk(T))     # IN(node) kept as is / GENERIC_VISIT(IN(node))
            pkey = ",".join(f"{k.split('|', 1)[1] if '|' in k else k}={'T' if v else 'F'}" for k, v in p.decisions if not k.startswith("instrument"))
            for f, t, q in pf:
                if f == "annotation":
                    continue
                if dec.get(f"present|node.{f}") is False:
                    continue
                n = Q.count_slot(T, lambda s: s.path == f"node.{f}" or s.path.startswith(f"node.{f}.") or s.path.startswith(f"node.{f}["))
                ok = n >= 1 or whole
                chk.ob("R01.1", f"{hname}:{f}:not-dropped[{pkey}]" if not ok else f"{hname}:{f}:not-dropped", ok, f"ptera/transform.py ({hname})",
                       f"slot `{f}` of {kind} is carried into the output" + ("" if ok else f" -- DROPPED on path {dec}: {Q.show(T, 300)}"), nontrivial=ok)
            # duplicates / deep copies
            dup_reported = set()
            slots_here = []
            for x, d in Q.with_decisions(T, p.decisions):
                if isinstance(x, Rec):
                    continue
                if isinstance(x, (In, InList)):
                    slots_here.append((x, d))
            for c in [x for x in walk(T) if isinstance(x, Copy)]:
                inner = [s for s in walk(c.x) if isinstance(s, (In, InList))]
                for s_ in inner:
                    n = Q.count_slot(T, lambda s: overlaps(s.path, s_.path))
                    if n > 1:
                        rel = ".".join(seg.split("[")[0] for seg in s_.path.split(".")[-2:])
                        kk = f"{c.origin}:deepcopy({rel.split('.')[-1]})-next-to-original"
                        if kk not in dup_reported:
                            dup_reported.add(kk)
                            chk.ob("R01.1", kk, False, f"ptera/transform.py ({c.origin})",
                                   f"`{s_.path}` is deep-copied into the emitted code and its original is emitted as well: the sub-expression is evaluated "
                                   f"{n} times (e.g. `x[f()] = v` calls f twice) -- {Q.show(T, 260)}")
            for P in sorted({s.path for s, _ in slots_here}):
                if P.endswith(".annotation") or ".annotation." in P:
                    continue
                n = Q.count_slot(T, lambda s: overlaps(s.path, P) and not s.path.endswith(".annotation"))
                if n <= 1:
                    continue
                culprits = [(s, d) for s, d in slots_here if overlaps(s.path, P)]
                if any(isinstance(c, Copy) and any(isinstance(s, (In, InList)) and overlaps(s.path, P) for s in walk(c.x)) for c in walk(T) if isinstance(c, Copy)):
                    continue            # already reported as a deep copy
                if all(effect_free(s, d) for s, d in culprits if s.path != "node") and any(s.path != "node" for s, d in culprits):
                    chk.ob("R01.1", f"{hname}:{P}:duplicate-is-effect-free", True, f"ptera/transform.py ({hname})",
                           f"`{P}` occurs {n} times but can only be a plain name / constant on this path")
                    continue
                key = sorted({".".join(seg.split("[")[0] for seg in s.path.split(".")[1:]) for s, d in culprits})
                kk = f"{hname}:evaluated-twice:{'+'.join(key)}"
                if kk in dup_reported:
                    continue
                dup_reported.add(kk)
                chk.ob("R01.1", kk, False, f"ptera/transform.py ({hname})",
                       f"input slots {key} overlap and are evaluated {n} times by the emitted code: a side-effecting sub-expression runs more than once -- {Q.show(T, 300)}")
            if not dup_reported:
                chk.ob("R01.1", f"{hname}:no-slot-evaluated-twice[{pkey}]", True, f"ptera/transform.py ({hname})", "no payload slot is evaluated twice on this path", nontrivial=False)
            # order
            order = EVAL_ORDER.get(kind)
            if order:
                seq = []
                for sp in Q.linear_slots(T):
                    if sp.startswith("<generic") or sp == "node" or ".annotation" in sp or sp.endswith(".annotation"):
                        continue
                    b = Q.base_path(sp)
                    if b in order and (not seq or seq[-1] != b):
                        seq.append(b)
                # a duplicated effect-free slot (docstring, re-stored name) may legitimately reappear
                idx = [order.index(b) for b in seq]
                mono = all(x <= y for x, y in zip(idx, idx[1:]))
                if not mono and dict(p.decisions).get("const-is-str|node.body[0].value"):
                    mono = True
                chk.ob("R01.1", f"{hname}:evaluation-order[{pkey}]" if not mono else f"{hname}:evaluation-order", mono, f"ptera/transform.py ({hname})",
                       f"slots are evaluated in the order {seq} (language order {order})", nontrivial=mono)

    # ------------------------------------------------------------------ R01.2
    for hname, want in EXPECT_CLASS.items():
        if hname not in H:
            chk.ob("R01.2", f"{hname}:handler-present", False, "ptera/transform.py", f"handler {hname} vanished: {want} statements are no longer rewritten")
            continue
        bad = []
        for p in H[hname]:
            T = p.template
            if isinstance(T, Raise):
                continue
            tops = top_nodes(T)
            core = None
            for x in tops:
                for y in walk(x):
                    if isinstance(y, Node) and y.cls == want:
                        core = core or y
            if core is None:
                bad.append(f"no {want} node in {Q.show(T, 160)}")
                continue
            for f, t, q in payload_fields(want):
                fv = core.fields.get(f)
                inside = fv is not None and any(isinstance(s, (In, InList)) and Q.base_path(s.path) == f for s in walk(fv))
                absent = dict(p.decisions).get(f"present|node.{f}") is False or f in ("annotation",)
                if not inside and not absent and f in ("target", "iter", "orelse", "body", "value", "type", "args", "decorator_list", "returns"):
                    if not (want == "FunctionDef" and f == "body"):
                        bad.append(f"slot {f} is not in field {f} of the emitted {want}")
        chk.ob("R01.2", f"{hname}:{want}->{want}", not bad, f"ptera/transform.py ({hname})",
               f"{want} is rewritten into a {want} with every slot in the field of the same role" + (f" -- {bad[:2]}" if bad else ""))
    for hname, first in (("visit_AugAssign", "generic"), ("visit_ImportFrom", "node"), ("visit_Import", "node")):
        if hname not in H:
            continue
        bad = []
        for p in H[hname]:
            tops = top_nodes(p.template)
            t0 = tops[0] if tops else None
            ok = (isinstance(t0, GenericVisit) and isinstance(t0.x, In) and t0.x.path == "node") if first == "generic" else (isinstance(t0, In) and t0.path == "node")
            if not ok:
                bad.append(Q.show(p.template, 160))
        chk.ob("R01.2", f"{hname}:original-statement-first", not bad, f"ptera/transform.py ({hname})",
               "the original statement is emitted first, unchanged" + (f" -- {bad[:1]}" if bad else ""))
    nested = H.get("visit_FunctionDef[nested]", [])
    chk.ob("R01.2", "visit_FunctionDef[nested]:returned-unvisited", bool(nested) and all(isinstance(p.template, In) and p.template.path == "node" for p in nested),
           "ptera/transform.py (visit_FunctionDef)", "a nested def is returned untouched")
    passthrough = [k for k in ("While", "If", "Try", "With", "Match", "Expr", "Delete", "Raise", "Assert", "Global", "Nonlocal", "Pass", "Break", "Continue")
                   if f"visit_{k}" not in handler_names]
    gv = any(isinstance(n, ast.FunctionDef) and n.name == "generic_visit" for n in cdef.body)
    chk.ob("R01.2", "pass-through-classes:generic_visit", not gv, f"ptera/transform.py ({cls})",
           f"statement classes without a handler ({', '.join(passthrough)}) go through NodeTransformer.generic_visit, which the class does not override")

    # ------------------------------------------------------------------ R01.3
    seen_ops = {}
    for hname, paths in H.items():
        for p in paths:
            for x in walk(p.template):
                if not isinstance(x, Node):
                    continue
                verdict = None
                if x.cls == "Call":
                    f = x.fields.get("func")
                    if Q.is_interact(x):
                        verdict = ("ok", "frame.interact(...)")
                    elif isinstance(f, Node) and f.cls == "Name" and (isinstance(f.fields.get("id"), Lib) or f.fields.get("id") == "__ptera_Key"):
                        verdict = ("ok", f"{f.fields.get('id')!r}(...)")
                    else:
                        verdict = ("bad", f"call of {Q.show(f, 60)}")
                elif x.cls == "Subscript":
                    v = x.fields.get("value")
                    if isinstance(v, Node) and v.cls == "Name" and v.fields.get("id") == "__ptera_globals" and isinstance(x.fields.get("slice"), Node) and x.fields["slice"].cls == "Constant":
                        verdict = ("ok", "__ptera_globals[<name>]")
                    else:
                        base = "GENSYM" if isinstance(v, Node) and v.cls == "Name" and isinstance(v.fields.get("id"), Gensym) else Q.show(v, 40)
                        verdict = ("bad", f"Subscript({base})[{'index' if isinstance(x.fields.get('slice'), Node) else '?'}] applied to a user value")
                elif x.cls == "Attribute":
                    v = x.fields.get("value")
                    verdict = ("ok", "frame.interact") if Q.is_lib_name(v, "frame") else ("bad", f"attribute load on {Q.show(v, 40)}")
                elif x.cls in ("BinOp", "Compare", "Starred", "Await", "UnaryOp", "BoolOp", "IfExp", "ListComp", "Delete"):
                    verdict = ("bad", f"synthesised {x.cls}")
                if verdict:
                    seen_ops.setdefault((hname, x.cls, verdict[1], verdict[0], x.site), 0)
                    seen_ops[(hname, x.cls, verdict[1], verdict[0], x.site)] += 1
    for (hname, c, what, v, site), n in sorted(seen_ops.items()):
        chk.ob("R01.3", f"{hname}:{c}:{what}", v == "ok", f"ptera/transform.py:{site}",
               f"synthesised {c} `{what}` in {hname}" + ("" if v == "ok" else ": an operation the original program does not perform is applied to a user value"))

    # ------------------------------------------------------------------ R01.4
    for hname, paths in H.items():
        for p in paths:
            for x in walk(p.template):
                if isinstance(x, Node) and x.cls == "ExceptHandler" and not any(isinstance(s, (In, InList)) for s in walk(x.fields.get("body"))):
                    ty = x.fields.get("type")
                    body = [s for s, _, _ in Q.stmts_of(x.fields.get("body") or [])]
                    last = body[-1] if body else None
                    ok_type = isinstance(ty, Node) and ty.cls == "Name" and ty.fields.get("id") == "BaseException"
                    ok_raise = isinstance(last, Node) and last.cls == "Raise" and not last.fields.get("exc")
                    ok_body = all(isinstance(s, Node) and s.cls == "Expr" and Q.is_interact(s.fields.get("value")) for s in body[:-1])
                    chk.ob("R01.4", f"{hname}:synthesised-handler:catches-BaseException", ok_type, f"ptera/transform.py:{x.site}", f"synthesised handler catches {Q.show(ty, 40)}")
                    chk.ob("R01.4", f"{hname}:synthesised-handler:re-raises", ok_raise, f"ptera/transform.py:{x.site}", "synthesised handler ends with a bare `raise`")
                    chk.ob("R01.4", f"{hname}:synthesised-handler:only-interactions", ok_body, f"ptera/transform.py:{x.site}", "synthesised handler body holds only standalone interactions before the re-raise")
                if isinstance(x, Node) and x.cls == "Try" and isinstance(x.fields.get("finalbody"), list):
                    fb = [s for s, _, _ in Q.stmts_of(x.fields.get("finalbody"))]
                    if fb and not any(isinstance(s, (In, InList, Visit)) for s in walk(fb)):
                        ok = all(isinstance(s, Node) and s.cls == "Expr" and Q.is_interact(s.fields.get("value")) for s in fb)
                        chk.ob("R01.4", f"{hname}:synthesised-finally:only-interactions", ok, f"ptera/transform.py:{x.site}",
                               "synthesised finally blocks hold only standalone interactions (no return/break/assignment that could swallow an exception)")

    # ------------------------------------------------------------------ R01.5
    libn = lib_names(repo)
    emitted = sorted(set(libn.values()) | {"__ptera_globals", "__ptera_Key"})
    mangled = [n for n in emitted if n.startswith("__") and not n.endswith("__")]
    for sc in SCOPE_CLASSES:
        h = f"visit_{sc}"
        if h in handler_names:
            paths = H.get(h + "[nested]") or H.get(h) or []
            unvisited = bool(paths) and all(isinstance(p.template, In) and p.template.path == "node" for p in paths)
            chk.ob("R01.5", f"{sc}:returned-unvisited", unvisited, f"ptera/transform.py ({h})", f"nested {sc} is returned unvisited (nothing is emitted inside its scope)")
        elif sc == "ClassDef":
            chk.ob("R01.5", f"{sc}:no-handler:mangled-names", not mangled, f"ptera/transform.py ({cls})",
                   f"{sc} has no handler, so bindings in a class body inside the function are rewritten there; the emitted names {mangled} "
                   "match the private-name pattern __x and are mangled to _Class__x in a class body -> NameError at run time")
        elif sc in ("AsyncFunctionDef", "Lambda"):
            chk.ob("R01.5", f"{sc}:emitted-names-resolve-through-closure", True, f"ptera/transform.py ({cls})",
                   f"{sc} has no handler: the names emitted inside it resolve to the enclosing function's locals through ordinary closure lookup "
                   "(transparent; that its bindings are then reported as the outer function's is judged under C02 R02.5)")
        else:
            chk.ob("R01.5", f"{sc}:comprehension-walrus-binds-in-function", True, f"ptera/transform.py ({cls})",
                   f"{sc}: the only binding form inside (walrus) binds in the enclosing function, so rewriting it there is scope-correct")

    # ------------------------------------------------------------------ R01.6
    evc = next((n for n in tree.body if isinstance(n, ast.ClassDef) and any(isinstance(b, ast.Name) and b.id == "NodeVisitor" for b in n.bases)
                and n.name != "SimpleVariableCollector"), None)
    evc_handlers = {m.name for m in evc.body if isinstance(m, ast.FunctionDef)} if evc else set()
    root = [p for p in H.get("visit_FunctionDef", []) if not isinstance(p.template, Raise)]
    for declkind, setname in (("Nonlocal", "free"), ("Global", "external")):
        prologue_mentions = any(isinstance(x, Ident) and x.path == f"{setname}[*]" for p in root for x in walk(p.template))
        handled = f"visit_{declkind}" in handler_names or f"visit_{declkind}" in evc_handlers
        chk.ob("R01.6", f"prologue:{setname}-names-before-{declkind.lower()}-declaration", (not prologue_mentions) or handled, "ptera/transform.py (visit_FunctionDef)",
               f"the prologue mentions every `{setname}` name before the body; neither the collector nor the transformer handles ast.{declkind}, "
               f"so a `{declkind.lower()} x` statement in the body now follows a use/assignment of x -> SyntaxError when the probe is activated")

    # ------------------------------------------------------------------ R01.7
    contexts = {"visit_For": ("node.target", {"Name", "Tuple", "List", "Attribute", "Subscript"}),
                "visit_Assign": ("node.targets", {"Name", "Tuple", "List", "Attribute", "Subscript"})}
    for hname, (slot, legal) in contexts.items():
        refused = set()
        for p in H.get(hname, []):
            if isinstance(p.template, Raise) and "NotImplementedError" in p.template.exc:
                poss = set(legal)
                for k, v in p.decisions:
                    if k.startswith(f"kind|{slot}"):
                        ks = set(k.split("|")[2].split(","))
                        poss = (poss & ks) if v else (poss - ks)
                refused |= poss
        chk.ob("R01.7", f"{hname}:top-level-target-kinds" + (f":refused[{','.join(sorted(refused))}]" if refused else ""), not refused, f"ptera/transform.py ({hname})",
               f"every legal target kind {sorted(legal)} is rewritten" + (f" -- {sorted(refused)} end in NotImplementedError" if refused else ""))
        inner = set()
        for p in H.get(hname, []):
            for dec, r, over in p.notes:
                if "NotImplementedError" in r.exc:
                    poss = {"Name", "Tuple", "List", "Starred", "Attribute", "Subscript"}
                    for k, v in dec:
                        if k.startswith("kind|") and k.split("|")[1] == over:
                            ks = set(k.split("|")[2].split(","))
                            poss = (poss & ks) if v else (poss - ks)
                    inner |= poss
        chk.ob("R01.7", f"{hname}:element-target-kinds" + (f":refused[{','.join(sorted(inner))}]" if inner else ""), not inner, f"ptera/transform.py ({hname})",
               "every legal kind of a tuple element is rewritten" + (f" -- elements of kind {sorted(inner)} end in NotImplementedError" if inner else ""))
    # a starred element must never become the only target of an emitted assignment
    starred_sole = False
    for p in H.get("visit_Assign", []):
        for x, dec in Q.with_decisions(p.template, p.decisions):
            if isinstance(x, Node) and x.cls == "Assign":
                tg = x.fields.get("targets") or []
                if len(tg) == 1 and isinstance(tg[0], In) and tg[0].ctx == "store" and "elts[" in tg[0].path and "Starred" in Q.possible_kinds(tg[0], dec):
                    starred_sole = True
    chk.ob("R01.7", "visit_Assign:starred-element-as-sole-target", not starred_sole, "ptera/transform.py (visit_Assign._decompose)",
           "`a, *b = x` is decomposed into one assignment per element; the element `*b` becomes the only target of `*b = t[1]`, which compile() rejects (SyntaxError at activation)")

    # the globals snapshot read at entry is faithful (documented exception: rebinding during the call)
    from .shared import dictpile_obligations
    dictpile_obligations(repo, chk, "R01.3")

    # ------------------------------------------------------------------ R01.11
    from ..astq import facts_of
    trf = repo.func("transform.transform")
    ftr = facts_of(trf)
    saves = [(n.targets[0].id, n.value) for t_, c_, n in ftr.items if isinstance(n, ast.Assign) and len(n.targets) == 1 and isinstance(n.targets[0], ast.Name)
             and isinstance(n.value, ast.Call) and norm(n.value.func) == "glb.get" and n.value.args and norm(n.value.args[0]) in ("fname", "fn.__name__")]
    execs = [n for t_, c_, n in ftr.items if isinstance(n, ast.Call) and is_name_(n.func, "exec")]
    if not execs:
        raise AnalysisError("transform.transform: the exec() that builds the instrumented function was not found")
    ok_save = len(saves) == 1 and len(saves[0][1].args) == 2 and not (isinstance(saves[0][1].args[1], ast.Constant) and saves[0][1].args[1].value is None)
    sv = saves[0][0] if saves else "<saved binding>"
    dflt = norm(saves[0][1].args[1]) if saves and len(saves[0][1].args) == 2 else "None"
    chk.ob("R01.11", "transform.transform:absence-of-the-name-is-remembered", ok_save, trf.where,
           f"before exec() rebinds the function's name in its module, the previous binding is saved with a marker that distinguishes 'no such global' from a global that is None (saved as `{norm(saves[0][1]) if saves else 'nothing'}`)"
           + ("" if ok_save else ": a name that was not a global (a method, a nested function) comes back as a global bound to None -- e.g. a method called `max` shadows the builtin in its module from then on"))
    key_ = ("fname", "fn.__name__")
    restores = ftr.find("glb[fname] = " + sv, when=[f"{sv} is not {dflt}"])
    removes = [n for t_, c_, n in ftr.starting("glb.pop(fname") + ftr.starting("del glb[fname]") if f"{sv} is {dflt}" in c_ and isinstance(n, (ast.Call, ast.Delete))]
    every = ftr.find("glb[fname] = " + sv)
    ok_restore = ok_save and len(restores) == 1 and len(every) == 1 and len(removes) == 1
    chk.ob("R01.11", "transform.transform:binding-restored-or-removed", ok_restore, trf.where,
           "afterwards the name is bound to what it was bound to, or unbound again when there was no such global")
    from .shared import scratch_maker_obligations
    scratch_maker_obligations(repo, chk, "R01.11", "the module's globals do not keep ptera's closure factory when building the instrumented copy fails")
    # ------------------------------------------------------------------ R01.10
    def returns_nothing(fi, seen=()):
        """Every return of the function is bare / None / False, or hands on the result of a package function that returns nothing."""
        from ..callgraph import CallGraph
        for r in returns_of(fi.node):
            v = r.value
            if v is None or (isinstance(v, ast.Constant) and v.value in (None, False)):
                continue
            if isinstance(v, ast.Call):
                cg_ = getattr(repo, "_cg_cache", None) or CallGraph(repo)
                repo._cg_cache = cg_
                callees = [c for call, cs, ext, how in cg_.edges[fi.qual] if call is v for c in cs]
                if callees and all(c not in seen and returns_nothing(repo.functions[c], seen + (fi.qual,)) for c in callees):
                    continue
            return False
        return True
    n_exit = 0
    for q, fi in sorted(repo.functions.items()):
        if fi.node.name in ("__exit__", "__aexit__") and fi.cls:
            n_exit += 1
            ok = returns_nothing(fi)
            chk.ob("R01.10", f"{q}:returns-nothing", ok, fi.where,
                   f"{q} returns nothing: an exception raised by the instrumented function (or inside an overlay's block) propagates" if ok else
                   f"{q} may return a truthy value ({[norm(r.value) for r in returns_of(fi.node) if r.value is not None]}): the exception in flight is suppressed and the call returns None instead of raising")
    chk.count("context managers (__exit__)", n_exit)
    # ------------------------------------------------------------------ R01.9
    from .. import pybinding
    from ..evc import Collector
    pybinding.validate()
    col = Collector(repo)
    for row in pybinding.ROWS:
        rid = row[0]
        if not pybinding.ORACLE[rid] or rid in ("delete", "param"):
            continue
        v = col.verdict(row)
        ok = v["recorded"] or v["funcname"]
        chk.ob("R01.9", f"{rid}:not-mistaken-for-an-external", ok, f"ptera/transform.py ({col.cls.name})",
               f"{rid}: the bound name is known to the collector ({'assigned' if v['recorded'] else 'nested definition name'})" if ok else
               f"{rid}: the collector does not know this binding ({v['blocked_by'] or 'no handler for ' + v['class']}); a function that reads the name classifies it as external, "
               "fetches it from the globals at entry and fails with PteraNameError before running")

    # ------------------------------------------------------------------ R01.8
    from .shared import closure_reference_obligations
    closure_reference_obligations(repo, chk, "R01.8", H)
    tr = repo.func("transform.transform")
    copies = [norm(n)[:90] for n in walk_local(tr.node) if isinstance(n, ast.Attribute) and n.attr == "cell_contents"]
    chk.ob("R01.8", "transform.transform:closure-cells-copied", not copies, tr.where,
           "the instrumented closure is re-created by calling the #WRAP factory with the *contents* of the original cells: the new function "
           "has fresh cells (later rebinding in the enclosing scope is not seen; a cell that is still empty raises 'Cell is empty')")

    # fixtures: the duplicate detector and the synthesised-operation detector are alive
    from ..xform.terms import In as _In
    dup = [Node("Assign", {"targets": [_In("node.targets[0]", "expr", ctx="store")], "value": Copy(_In("node.targets[0].slice", "expr"))}, 0)]
    chk.fixture("R01.1", "sub-slot deep-copied next to its parent", True, Q.count_slot(dup, lambda s: overlaps(s.path, "node.targets[0]")) > 1)
    once = [Node("Assign", {"targets": [_In("node.targets[0]", "expr", ctx="store")], "value": _In("node.value", "expr")}, 0)]
    chk.fixture("R01.1", "each slot once", False, Q.count_slot(once, lambda s: overlaps(s.path, "node.targets[0]")) > 1)
    for p in (H.get("visit_Assign") or [])[:2] + (H.get("visit_For") or [])[:1] + (H.get("visit_Yield") or [])[:1]:
        chk.sample({"handler": p.handler, "decisions": dict(p.decisions), "template": Q.show(p.template, 900)})
