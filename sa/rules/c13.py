"""C13 - method selectors bind the right function and the right receiver: the receiver object must be used by
identity only (never hashed, never ==-compared); the receiver parameter name comes from the signature; unwrapping."""
import ast

from ..astq import conds, facts_of, is_name, kwarg, literals, parse_fixture, returns_of
from ..core import AnalysisError, norm, walk_local, dotted

EQ_OPS = (ast.Eq, ast.NotEq, ast.In, ast.NotIn)


def receiver_sources(fn_node):
    """Expressions `X.__self__` and local names bound to them."""
    names = set()
    exprs = []
    for n in walk_local(fn_node):
        if isinstance(n, ast.Attribute) and n.attr == "__self__":
            exprs.append(n)
        if isinstance(n, ast.Assign) and isinstance(n.value, ast.Attribute) and n.value.attr == "__self__":
            for t in n.targets:
                if isinstance(t, ast.Name):
                    names.add(t.id)
    return exprs, names


def is_receiver_expr(node, names):
    return (isinstance(node, ast.Attribute) and node.attr == "__self__") or (isinstance(node, ast.Name) and node.id in names)


def receiver_bindings(fn_node):
    """Constructor keywords that receive the receiver: [(call, class name, field, raw?, identity_only?)].
    raw = the object itself is stored; otherwise it is captured inside a lambda/def or passed through id()."""
    exprs, names = receiver_sources(fn_node)
    out = []
    for c in walk_local(fn_node):
        if not (isinstance(c, ast.Call) and isinstance(c.func, ast.Name) and c.keywords):
            continue
        for k in c.keywords:
            if k.arg is None:
                continue
            hits = [n for n in ast.walk(k.value) if is_receiver_expr(n, names)]
            if not hits:
                continue
            raw = is_receiver_expr(k.value, names)
            identity_only = False
            if not raw:
                # wrapped: every use of the receiver inside the wrapper must be an `is` / `is not` comparison, id(), or a lambda default
                identity_only = True
                for h in hits:
                    p = getattr(h, "_parent", None)
                    if isinstance(p, ast.Compare) and all(isinstance(o, (ast.Is, ast.IsNot)) for o in p.ops):
                        continue
                    if isinstance(p, ast.Call) and is_name(p.func, "id"):
                        continue
                    if isinstance(p, ast.arguments):     # default value of a lambda parameter
                        lam = getattr(p, "_parent", None)
                        pname = None
                        if isinstance(lam, ast.Lambda):
                            ds = p.defaults
                            params = p.args[len(p.args) - len(ds):]
                            for a, d in zip(params, ds):
                                if d is h:
                                    pname = a.arg
                            uses = [u for u in ast.walk(lam.body) if isinstance(u, ast.Name) and u.id == pname]
                            if uses and all(isinstance(getattr(u, "_parent", None), ast.Compare) and
                                            all(isinstance(o, (ast.Is, ast.IsNot)) for o in u._parent.ops) for u in uses):
                                continue
                    identity_only = False
            out.append((c, c.func.id, k.arg, raw, identity_only))
    return out


HASH_METHODS = {"setdefault", "get", "pop", "add", "remove", "discard", "index", "count", "__contains__", "__getitem__", "__setitem__", "update", "fromkeys"}


def taint_sinks(fn_node, tainted):
    """Places where a tainted name (the receiver) is hashed or ==-compared inside a helper function."""
    sinks = []
    for n in ast.walk(fn_node):
        if isinstance(n, ast.Compare) and any(isinstance(o, EQ_OPS) for o in n.ops):
            if any(isinstance(x, ast.Name) and x.id in tainted for x in [n.left, *n.comparators]):
                sinks.append(f"`{norm(n)}` (equality / membership)")
        elif isinstance(n, ast.Subscript) and isinstance(n.slice, ast.Name) and n.slice.id in tainted:
            sinks.append(f"`{norm(n)}` (used as a mapping key: hashed and ==-compared)")
        elif isinstance(n, ast.Call):
            args = [a for a in n.args if isinstance(a, ast.Name) and a.id in tainted]
            if args and isinstance(n.func, ast.Attribute) and n.func.attr in HASH_METHODS:
                sinks.append(f"`{norm(n)[:70]}` (container lookup: hashed and ==-compared)")
            elif args and isinstance(n.func, ast.Name) and n.func.id in ("hash", "set", "frozenset", "sorted", "dict"):
                sinks.append(f"`{norm(n)[:70]}`")
        elif isinstance(n, ast.Dict) and any(isinstance(k, ast.Name) and k.id in tainted for k in n.keys if k is not None):
            sinks.append(f"`{norm(n)[:70]}` (dict key)")
        elif isinstance(n, (ast.Set,)) and any(isinstance(k, ast.Name) and k.id in tainted for k in n.elts):
            sinks.append(f"`{norm(n)[:70]}` (set element)")
    return sinks


def key_hashes_values(call_fn):
    """Does the interning key contain the keyword values themselves (=> hash() and == on them)?"""
    kw = call_fn.args.kwarg.arg if call_fn.args.kwarg else None
    for n in walk_local(call_fn):
        if isinstance(n, ast.Assign) and any(is_name(t, "key") for t in n.targets):
            txt = norm(n.value)
            uses_values = kw is not None and (f"{kw}.items()" in txt or f"{kw}.values()" in txt)
            by_id = "id(" in txt
            return uses_values and not by_id, txt
    raise AnalysisError("selector.InternedMC.__call__: cache key definition not found")


def eq_sinks(repo, field):
    """Comparisons by equality/membership whose operand is `<something>.<field>` in the modules that evaluate selectors."""
    out = []
    for mod in ("selector", "interpret", "overlay", "probe"):
        m = repo.module(mod)
        for n in ast.walk(m.tree):
            if isinstance(n, ast.Compare) and any(isinstance(o, EQ_OPS) for o in n.ops):
                for side in [n.left, *n.comparators]:
                    if isinstance(side, ast.Attribute) and side.attr == field and not is_name(side.value, "self"):
                        fn = n
                        while fn is not None and not isinstance(fn, (ast.FunctionDef, ast.AsyncFunctionDef)):
                            fn = getattr(fn, "_parent", None)
                        cls = getattr(fn, "_parent", None) if fn else None
                        q = f"{mod}.{cls.name + '.' if isinstance(cls, ast.ClassDef) else ''}{fn.name if fn else '<module>'}"
                        # comparisons between two selector nodes (VSymbol/VCall __eq__) are about syntax trees, not receivers
                        if isinstance(cls, ast.ClassDef) and cls.name.startswith("V"):
                            continue
                        # evaluation actions receive parser tokens (`node.value` is the token text), not selector elements
                        if fn is not None and any(isinstance(d, ast.Call) and isinstance(d.func, ast.Attribute) and d.func.attr == "register_action"
                                                  for d in fn.decorator_list) and isinstance(side.value, ast.Name) \
                                and fn.args.args and side.value.id == fn.args.args[0].arg:
                            continue
                        out.append((q, n))
    return out


def run(repo, chk):
    chk.explanation = (
        "Decides the structural clauses of C13: (R13.1) taint from the bound method's receiver (`fn.__self__` in the selector resolver) to "
        "hash / equality sinks -- the interning cache key and every ==/!=/in comparison on the element field that stores it; a receiver "
        "must only ever be compared with `is` (any object kind: unhashable, value-equal) ; (R13.2) the constrained parameter name is read from the "
        "signature of the resolved function, not a literal; (R13.3) resolution follows __wrapped__ up to a tooled function, unwraps "
        "property.fget, walks dotted attribute paths and only bound methods get a receiver constraint. Per-call delivery over a "
        "population of instances is a runtime fact and is not decided.")
    chk.not_decided += ["per-call delivery across populations of instances", "user-defined __eq__/__hash__ behaviour (only whether ptera invokes them on a receiver)"]
    chk.assumptions += ["Python semantics: dict membership hashes its key and falls back to ==; tuples hash/compare element-wise"]
    chk.rule("R13.1", "identity, not equality: the receiver of a bound-method selector never reaches hash() or an equality/membership comparison", 1)
    chk.rule("R13.4", "the receiver constraint covers every event of the activation: nothing is reported before the receiver parameter, or an absent constrained capture fails the check", 1)
    chk.rule("R13.2", "the receiver constraint is attached to the first parameter of the resolved function as named in its signature", 2)
    chk.rule("R13.3", "symbol resolution: __wrapped__ chain until a tooled function, property.fget, dotted attribute paths; only MethodType gets a receiver constraint", 6)

    rs = repo.func("selector._resolve")
    binds = receiver_bindings(rs.node)
    if not binds:
        exprs, names = receiver_sources(rs.node)
        if not exprs:
            chk.ob("R13.1", "selector._resolve:receiver-constraint-present", False, rs.where,
                   "no use of the bound method's receiver (`__self__`) in the resolver: obj.meth selectors would observe every instance")
        else:
            raise AnalysisError("selector._resolve: receiver is used but not in a recognised constructor keyword")
    call = repo.func("selector.InternedMC.__call__")
    hashes, keytxt = key_hashes_values(call.node)

    # fixtures
    fx_bad = parse_fixture("def _resolve(fn):\n    return Element(name='s', value=fn.__self__)\n").body[0]
    fx_good = parse_fixture("def _resolve(fn):\n    return Element(name='s', value=MatchFunction(lambda obj, r=fn.__self__: obj is r))\n").body[0]
    chk.fixture("R13.1", "receiver stored raw", True, any(raw for _, _, _, raw, _ in receiver_bindings(fx_bad)))
    chk.fixture("R13.1", "receiver captured in an identity test", False, any(raw or not ident for _, _, _, raw, ident in receiver_bindings(fx_good)))

    for c, cls, field, raw, ident in binds:
        chk.count("receiver bindings")
        cq = f"selector.{cls}"
        interned = cq in repo.classes and any(k.arg == "metaclass" for c2 in repo.mro(cq) for k in repo.classes[c2].keywords)
        if raw:
            if interned:
                chk.ob("R13.1", f"selector._resolve:receiver->{cls}.{field}:InternedMC.__call__:cache-key", not hashes, rs.where,
                       f"the receiver object is stored raw in {cls}.{field}, which the interning metaclass puts into its cache key "
                       f"(key = {keytxt}): it is hashed (unhashable receiver -> TypeError) and equal receivers share one selector")
            sinks = eq_sinks(repo, field)
            if not sinks:
                chk.ob("R13.1", f"selector._resolve:receiver->{cls}.{field}:no-equality-sink", True, rs.where, f"no ==/in comparison on .{field}")
            for q, cmp in sinks:
                txt = norm(cmp)
                # `a is b or a == b` does not help: equal-but-distinct objects still match
                chk.ob("R13.1", f"selector._resolve:receiver->{cls}.{field}:{q}:[{txt}]", False, f"ptera/{q.split('.')[0]}.py:{cmp.lineno}",
                       f"the receiver stored in {cls}.{field} is compared with `{txt}` in {q}: an equal-but-distinct receiver is observed too")
        else:
            chk.ob("R13.1", f"selector._resolve:receiver->{cls}.{field}:identity-only", ident, rs.where,
                   f"the receiver is wrapped before it is stored in {cls}.{field}; inside the wrapper it is " + ("only compared with `is`" if ident else "used other than by identity"))
            kwv = kwarg(c, field)
            wrapper = kwv.func.id if isinstance(kwv, ast.Call) and isinstance(kwv.func, ast.Name) else None
            wq = f"selector.{wrapper}"
            if wrapper is not None and wq not in repo.classes and wq in repo.functions:
                # the receiver is handed to a helper: follow it
                hf = repo.functions[wq]
                hparams = [a.arg for a in hf.node.args.args]
                tainted = {hparams[i] for i, a in enumerate(kwv.args) if i < len(hparams) and any(is_receiver_expr(x, receiver_sources(rs.node)[1]) for x in ast.walk(a))}
                sinks = taint_sinks(hf.node, tainted)
                chk.ob("R13.1", f"selector._resolve:receiver->{wq}:hash-or-equality-sinks", not sinks, hf.where,
                       f"the receiver is passed to {wq}({', '.join(sorted(tainted))}); inside it the receiver is " +
                       ("only captured / compared by identity" if not sinks else f"hashed or compared by equality: {sinks[:2]} -- equal-but-distinct receivers are confused, unhashable ones fail"))
                rets = [r.value for r in ast.walk(hf.node) if isinstance(r, ast.Return) and r.value is not None]
                made = [x.func.id for r in ast.walk(hf.node) if isinstance(r, ast.Assign) for x in [r.value] if isinstance(x, ast.Call) and isinstance(x.func, ast.Name) and f"selector.{x.func.id}" in repo.classes]
                wrapper = made[0] if made else None
                wq = f"selector.{wrapper}"
            if wrapper is None or wq not in repo.classes:
                raise AnalysisError("selector._resolve: receiver wrapper class not recognised")
            special = sorted(n.name for n in repo.classes[wq].body if isinstance(n, ast.FunctionDef) and n.name in ("__eq__", "__hash__", "__ne__"))
            chk.ob("R13.1", f"selector.{wrapper}:identity-hash", not special, f"ptera/selector.py:{repo.classes[wq].lineno}",
                   f"the wrapper kept in the interned element hashes and compares by identity (defines {special or 'no __eq__/__hash__'}), so the receiver itself is never hashed")
            # the wrapper must be applied, never ==-compared with captured values (that would call the value's __eq__ on it)
            for q, cmp in eq_sinks(repo, field):
                guarded = False
                cur, child = getattr(cmp, "_parent", None), cmp
                while cur is not None and not isinstance(cur, (ast.FunctionDef, ast.Lambda)):
                    if isinstance(cur, ast.If) and norm(cur.test).startswith("isinstance(") and wrapper in norm(cur.test):
                        in_else = any(child is x or child in ast.walk(x) for x in cur.orelse)
                        guarded = guarded or in_else
                    child, cur = cur, getattr(cur, "_parent", None)
                chk.ob("R13.1", f"selector._resolve:receiver->{cls}.{field}:{q}:[{norm(cmp)}]:not-applied-to-wrapper", guarded, f"ptera/{q.split('.')[0]}.py:{cmp.lineno}",
                       f"`{norm(cmp)}` in {q} is only evaluated for plain values (else-branch of the isinstance(..., {wrapper}) test); "
                       "comparing the identity wrapper with == would ask the captured object's __eq__")

    # R13.4 the receiver constraint can only be enforced once the receiver parameter has been reported
    from ..xform import query as Q
    from ..xform.terms import Ident, Raise, Star, Node as TNode
    cls_, H, stats = Q.templates(repo, chk.tier)
    before = set()
    for p in H.get("visit_FunctionDef", []):
        if isinstance(p.template, Raise):
            continue
        seen_param = False
        for x in Q.walk(p.template) if hasattr(Q, "walk") else []:
            pass
        from ..xform.terms import walk as twalk
        for x in twalk(p.template):
            if Q.is_interact(x):
                ix = Q.Interact(x)
                s_ = ix.symname
                if isinstance(s_, Ident) and s_.path.startswith("node.args."):
                    seen_param = True
                elif not seen_param:
                    before.add("#enter" if s_ == "#enter" else "externals" if isinstance(s_, Ident) and s_.path == "external[*]" else
                               "closure variables" if isinstance(s_, Ident) and s_.path == "free[*]" else repr(s_))
    cc = repo.func("selector.Selector.check_captures")
    skips_absent = any(isinstance(n, ast.If) and isinstance(n.test, ast.Compare) and isinstance(n.test.ops[0], ast.In) and norm(n.test.left).endswith(".capture")
                       for n in ast.walk(cc.node))
    chk.ob("R13.4", "prologue:interactions-before-receiver-parameter", not (before and skips_absent), "ptera/transform.py (visit_FunctionDef) + ptera/selector.py (check_captures)",
           f"the generated prologue reports {sorted(before)} before the parameters, and check_captures lets a constraint pass while its variable (the receiver) is not captured yet: "
           "`obj.meth > G` (G a global read by the method) and `obj.meth > #enter` fire for every instance and carry no receiver")
    # the receiver matcher is the LAST condition of the call (appended by _resolve): it is only applied if check_captures judges every condition
    from .c12 import check_captures_shape
    probs = check_captures_shape(cc.node)
    chk.ob("R13.4", "selector.Selector.check_captures:universal", not probs, cc.where,
           "check_captures judges every condition of the selector (the receiver matcher that _resolve appends comes after the user's own conditions) and every "
           "captured value, and rejects on the first mismatch" + ("; ".join([""] + probs)))
    # R13.2  (read through temporaries: what matters is where the name comes from, not what the locals are called)
    from ..astq import expand as _exp
    want_ = "inspect.getfullargspec(_dig(fn.__func__)).args[0]"
    elname = [d for d in walk_local(rs.node) if isinstance(d, ast.Assign) and len(d.targets) == 1 and isinstance(d.targets[0], ast.Name) and norm(d.value).endswith(".name")]
    fnv = elname[0].targets[0].id if len(elname) == 1 else "fn"
    want_ = want_.replace("fn.__func__", f"{fnv}.__func__")

    def _through(e):
        t_ = _exp(e, rs.node) if e is not None else ""
        return t_.replace(f"{norm(elname[0].value)}.__func__", f"{fnv}.__func__") if len(elname) == 1 else t_
    names_ = [_through(kwarg(c, "name")) for c, cls, field, raw, ident in binds]
    chk.ob("R13.2", "selector._resolve:receiver-name-from-signature", bool(binds) and all(t_ == want_ for t_ in names_), rs.where,
           f"the constrained parameter is the first positional parameter of the resolved function (whatever it is called): {names_}")
    for c, cls, field, raw, ident in binds:
        nm, cp = kwarg(c, "name"), kwarg(c, "capture")
        chk.ob("R13.2", f"selector._resolve:constraint-on-{field}:named-by-signature", nm is not None and cp is not None and _through(nm) == want_ == _through(cp), rs.where,
               "the receiver element is named and captured under the signature's parameter name (the receiver is reported in the event)")
    from .shared import variant_selection_obligations
    variant_selection_obligations(repo, chk, "R13.4")      # the receiver element of `a.meth > v` (its value is a's own matcher) keeps its own count: the receiver parameter stays instrumented while that probe is active
    from .shared import routing_obligations
    routing_obligations(repo, chk, "R13.4", "record")      # every element that matches a binding has logged it before any focus element triggers: the receiver matcher (registered last) is in the table when the check runs
    from .shared import call_aggregates
    hv, ok_hv = call_aggregates(repo, "hasval")
    chk.ob("R13.4", "selector.Call.hasval:sees-nested-constraints", ok_hv, hv.where,
           "whether the capture check is installed at all is decided by Call.hasval over the captures AND the child calls: a receiver constraint on a nested level (`run_all > obj.meth > v`) still filters")
    from .shared import shared_value_mutations
    muts = shared_value_mutations(repo, {"selector.Element", "selector.Call"})
    chk.ob("R13.4", "selector:receiver-constraints-are-not-shared-between-selectors", not muts, "ptera/selector.py",
           "the list of value constraints of a selector (Call.all_values, which holds the receiver matcher) is built in a fresh list, never by extending the cached list of one of its (interned, shared) parts: "
           "a second object-bound selector does not inherit the first one's receiver" + (f" -- {muts}" if muts else ""))
    # R13.3
    mt = [n for n in walk_local(rs.node) if isinstance(n, ast.If) and norm(n.test) in ("isinstance(fn, types.MethodType)", "not isinstance(fn, types.MethodType)")]
    frs = facts_of(rs)
    is_m = "isinstance(fn, types.MethodType)"
    ok = len(mt) == 1 and (frs.has("el = el.clone(name=real_fn)", when=[is_m]) and frs.has("real_fn = _dig(fn.__func__)", when=[is_m]) or frs.has("el = el.clone(name=_dig(fn.__func__))", when=[is_m]))
    fe = repo.func("selector._find_eval_env")
    frame_names = sorted({n.value.id for n in walk_local(fe.node) if isinstance(n, ast.Attribute) and n.attr == "f_locals" and isinstance(n.value, ast.Name)})
    frp = frame_names[0] if len(frame_names) == 1 else "<frame>"
    piles = [n for n in walk_local(fe.node) if isinstance(n, ast.Call) and norm(n.func) == "DictPile"]
    from ..astq import expand as _expand
    def _src(a):
        if isinstance(a, ast.Name):
            st = [x for x in walk_local(fe.node) if isinstance(x, ast.Assign) and any(isinstance(t, ast.Name) and t.id == a.id for t in x.targets)]
            if len(st) == 1:
                return norm(st[0].value)
        return _expand(a, fe.node)
    shape = [[_src(a) for a in n.args] for n in piles]
    chk.ob("R13.3", "selector._find_eval_env:names-resolve-as-in-the-writing-frame", len(piles) == 1 and not piles[0].keywords
           and shape[0] == [f"{frp}.f_locals", f"{frp}.f_globals", "__builtins__"], fe.where,
           f"the names of a selector (`obj.method > v`, `Cls.method > v`) are looked up as Python would in the frame where the selector is written: "
           f"its locals, then its globals, then the builtins -- a local that shadows a global of the same name designates the local object (found {shape})")
    chk.ob("R13.3", "selector._resolve:method-resolved-to-function", ok, rs.where, "a bound method is resolved to its underlying (unwrapped) function")
    neg_ = bool(mt) and norm(mt[0].test).startswith("not ")
    pos_br, neg_br = ((mt[0].orelse, mt[0].body) if neg_ else (mt[0].body, mt[0].orelse)) if mt else ([], [])
    recv_in_else = mt and any(is_receiver_expr(n, set()) for s in neg_br for n in ast.walk(s))
    recv_in_body = mt and any(is_receiver_expr(n, set()) for s in pos_br for n in ast.walk(s))
    chk.ob("R13.3", "selector._resolve:constraint-only-for-bound-methods", bool(mt) and recv_in_body and not recv_in_else, rs.where,
           "only selectors written through an object get the receiver constraint (Cls.meth observes every instance)")
    ok = mt and (frs.has("el = el.clone(name=unwrapped)", when=[f"not {is_m}"]) and frs.has("unwrapped = _dig(fn)", when=[f"not {is_m}"]) or frs.has("el = el.clone(name=_dig(fn))", when=[f"not {is_m}"]))
    chk.ob("R13.3", "selector._resolve:plain-callable-unwrapped", bool(ok), rs.where, "functions reached through decorators are unwrapped as well")
    dg = repo.func("selector._dig")
    loops = [n for n in walk_local(dg.node) if isinstance(n, ast.While)]
    fdg = facts_of(dg)
    steps = fdg.find("fn = fn.__wrapped__")
    ok = len(loops) == 1 and len(steps) == 1 and sorted(literals(loops[0].test, True)) == sorted(["hasattr(fn, '__wrapped__')", "not is_tooled(fn)"]) and fdg.loops(steps[0]) and sorted(conds(steps[0], dg.node)) == sorted(literals(loops[0].test, True))
    chk.ob("R13.3", "selector._dig:follows-__wrapped__", ok, dg.where, "follows __wrapped__ until a tooled function (or the innermost one)")
    ok = fdg.has("return _dig(fn.fget)", exactly=["isinstance(fn, property)"]) or fdg.has("fn = _dig(fn.fget)", exactly=["isinstance(fn, property)"])
    chk.ob("R13.3", "selector._dig:property-fget", ok, dg.where, "a property is resolved to its getter")
    dr = repo.func("selector.dict_resolver.resolve")
    fdr = facts_of(dr)
    loops = [n for n in ast.walk(dr.node) if isinstance(n, ast.For) and norm(n.iter) == "parts"]
    ok = fdr.has("start, *parts = x.split('.')") and fdr.has("curr = env[start]", when=["start in env"]) and len(loops) == 1 and \
        any(isinstance(a, ast.Assign) and norm(a) == f"curr = getattr(curr, {norm(loops[0].target)})" for a in ast.walk(loops[0]))
    chk.ob("R13.3", "selector.dict_resolver.resolve:dotted-path", ok, dr.where, "dotted names are resolved attribute by attribute from the environment")
    from .shared import activation_integrity_obligations
    activation_integrity_obligations(repo, chk, "R13.4", "receiver-constrained probes")
    from .shared import fork_obligations
    fork_obligations(repo, chk, "R13.4", "the receiver captured for one call of obj.method is never the table another (nested, re-entrant) call writes into")
