"""C15 - documented notations are interchangeable: interning, field agreement, precedence sign obligations,
action coverage, focus rule.  The desugaring equalities themselves are not decided."""
import ast
import json
import math
import os

from ..astq import conds, facts_of, is_name, is_self_attr, kwarg, parse_fixture, returns_of
from ..core import AnalysisError, norm, walk_local, dotted

DATA = os.path.join(os.path.dirname(os.path.dirname(os.path.abspath(__file__))), "data", "precedence_obligations.json")
FIELD_CLASSES = ("selector.Element", "selector.Call")


# ---------------------------------------------------------------------------------------- table extraction
def fold_int(expr, env):
    if isinstance(expr, ast.Constant) and isinstance(expr.value, (int, float)):
        return expr.value
    if isinstance(expr, ast.Name) and expr.id in env:
        return env[expr.id]
    if isinstance(expr, ast.UnaryOp) and isinstance(expr.op, ast.USub):
        return -fold_int(expr.operand, env)
    if isinstance(expr, ast.BinOp) and isinstance(expr.op, (ast.Add, ast.Sub, ast.Mult)):
        a, b = fold_int(expr.left, env), fold_int(expr.right, env)
        return a + b if isinstance(expr.op, ast.Add) else a - b if isinstance(expr.op, ast.Sub) else a * b
    raise AnalysisError(f"precedence table: cannot constant-fold `{norm(expr)}`")


def prio_helpers(repo):
    """name -> function(prio) -> (rprio, lprio), folded from the one-line bodies in opparse."""
    out = {}
    for name in ("lassoc", "rassoc", "obrack", "cbrack"):
        fi = repo.func(f"opparse.{name}")
        rets = returns_of(fi.node)
        if len(rets) != 1 or not isinstance(rets[0].value, ast.Tuple) or len(rets[0].value.elts) != 2:
            raise AnalysisError(f"opparse.{name}: expected `return (right_prio, left_prio)`")
        param = fi.node.args.args[0].arg
        elts = rets[0].value.elts
        out[name] = (lambda p, elts=elts, param=param: (fold_int(elts[0], {param: p}), fold_int(elts[1], {param: p})))
    return out


def extract_tower(repo):
    """{operator text or ': TYPE' -> (rprio, lprio)} from the module-level `parser = opparse.Parser(...)`."""
    val = repo.module_assign("selector", "parser")
    if not isinstance(val, ast.Call):
        raise AnalysisError("selector.parser is not a constructor call")
    order = kwarg(val, "order")
    if not (isinstance(order, ast.Call) and order.args and isinstance(order.args[0], ast.Dict)):
        raise AnalysisError("selector.parser: order=OperatorPrecedenceTower({...}) not found")
    helpers = prio_helpers(repo)
    table = {}
    for k, v in zip(order.args[0].keys, order.args[0].values):
        keys = [e.value for e in k.elts] if isinstance(k, ast.Tuple) else [k.value] if isinstance(k, ast.Constant) else None
        if keys is None or not isinstance(v, ast.Call):
            raise AnalysisError(f"precedence table: entry `{norm(k)}: {norm(v)}` not recognised")
        h = (dotted(v.func) or "").split(".")[-1]
        if h not in helpers or len(v.args) != 1:
            raise AnalysisError(f"precedence table: helper `{norm(v.func)}` not recognised")
        pr = helpers[h](fold_int(v.args[0], {}))
        for key in keys:
            table[key] = pr
    lexer = kwarg(val, "lexer")
    lexdefs = {}
    if isinstance(lexer, ast.Call) and lexer.args and isinstance(lexer.args[0], ast.Dict):
        for k, v in zip(lexer.args[0].keys, lexer.args[0].values):
            if isinstance(k, ast.Constant) and isinstance(v, ast.Constant):
                lexdefs[k.value] = v.value
    return table, lexdefs


def resolve(table, tok):
    if tok is None:
        return (-math.inf, -math.inf)
    if tok == "WORD":
        if ": WORD" not in table:
            raise AnalysisError("precedence table has no ': WORD' entry")
        return table[": WORD"]
    if tok not in table:
        return None
    return table[tok]


def sign(table, left, right):
    a, b = resolve(table, left), resolve(table, right)
    if a is None or b is None:
        return "?"
    d = b[0] - a[1]
    return "+" if d > 0 else "-" if d < 0 else "0"


# ---------------------------------------------------------------------------------------- rules
def ctor_fields(repo, cls):
    init = repo.func(f"{cls}.__init__")
    a = init.node.args
    if a.args[1:] or a.vararg or a.kwarg:
        return init, None
    return init, [x.arg for x in a.kwonlyargs]


def run(repo, chk):
    chk.explanation = (
        "Decides the structural facts the documented selector equivalences rest on: every Element/Call is created through "
        "the interning metaclass whose key is built from all constructor keywords after merging defaults, instances are "
        "immutable, __init__/clone/_constructor_defaults agree field by field, the priority tower (constant-folded from "
        "the source) yields the sign of every load-bearing (left operator, right operator) comparison that the 13 documented "
        "laws were measured to depend on, every operator shape the documented forms produce has a registered action, the "
        "lexer is whitespace-insensitive, and focus is only ever added/removed as tag 1 at the documented places. "
        "The desugaring equalities themselves (outputs of the evaluator) are not decided.")
    chk.not_decided += ["equality of evaluator outputs for the documented pairs (semantic equality, not decided statically)",
                        "priority edits that flip several load-bearing entries whose effects cancel would be reported although the laws survive"]
    chk.assumptions += ["the parser consults priorities only through the sign of rprio(right)-lprio(left) (checked: R15.3 structure rows)",
                        "sign obligations were validated by single-entry flips against the pinned parser (selftest/calibration)"]
    chk.rule("R15.1", "interning is total and instances immutable: keyword-only metaclass __call__, key from all keywords after "
                      "merging defaults, object construction only under the cache-miss test, constructor fields written only in __init__", 10)
    chk.rule("R15.2", "__init__ keyword-only parameters = keys rebuilt by clone = _constructor_defaults keys + required; each stored in the same-named attribute", 8)
    chk.rule("R15.3", "sign of rprio(right)-lprio(left) for each load-bearing adjacent-token pair equals the sign the documented laws need", 67)
    chk.rule("R15.4", "every operator key the documented forms produce has a registered evaluation action; operator tokens are whitespace-insensitive", 14)
    chk.rule("R15.5", "focus is tag 1: with_focus/without_focus add/remove only {1}; `>` focuses an Element child; the function position is stripped of focus and capture; bare symbols are focused only at root", 5)

    # ---------------- R15.1
    call = repo.func("selector.InternedMC.__call__")
    a = call.node.args
    chk.ob("R15.1", "selector.InternedMC.__call__:keyword-only", not a.args[1:] and a.vararg is None and a.kwarg is not None, call.where,
           "instances can only be requested by keyword (every field takes part in the key)")
    kw = a.kwarg.arg if a.kwarg else "kwargs"
    body = call.node.body
    merge_i = key_i = None
    for i, st in enumerate(body):
        if isinstance(st, ast.Assign) and is_name(st.targets[0], kw) and isinstance(st.value, ast.Dict) \
                and any(k is None and norm(v).endswith("._constructor_defaults") for k, v in zip(st.value.keys, st.value.values)) \
                and any(k is None and is_name(v, kw) for k, v in zip(st.value.keys, st.value.values)):
            ks = [norm(v) for k, v in zip(st.value.keys, st.value.values) if k is None]
            if ks.index(kw) > [i for i, x in enumerate(ks) if x.endswith("._constructor_defaults")][0]:
                merge_i = i
        if isinstance(st, ast.Assign) and is_name(st.targets[0], "key") and key_i is None:
            key_i = i
            keyexpr = st.value
    chk.ob("R15.1", "selector.InternedMC.__call__:defaults-before-key", merge_i is not None and key_i is not None and merge_i < key_i,
           call.where, "defaults are merged (explicit keywords winning) before the cache key is computed")
    if key_i is not None:
        txt = norm(keyexpr)
        chk.ob("R15.1", "selector.InternedMC.__call__:key-covers-all-fields", f"{kw}.items()" in txt and "sorted(" in txt, call.where,
               f"the key is built from all keyword items in a canonical order (key = {txt})")
    ctor_calls = [c for c in ast.walk(call.node) if isinstance(c, ast.Call) and norm(c.func) == "super().__call__"]
    guarded = bool(ctor_calls) and all(any(x.endswith(" not in cls._cache") for x in conds(c, call.node)) for c in ctor_calls)
    chk.ob("R15.1", "selector.InternedMC.__call__:construct-only-on-miss", len(ctor_calls) == 1 and guarded, call.where,
           "a new object is constructed only when the key is not cached")
    rets = returns_of(call.node)
    chk.ob("R15.1", "selector.InternedMC.__call__:returns-cached", len(rets) == 1 and "_cache[key]" in norm(rets[0].value), call.where,
           "the cached object is what is returned (structural equality => identity)")
    # the intern table only grows: an entry once made is what every later structurally equal construction returns
    from .shared import MUTATING_METHODS
    shrinks = []
    for q_, f2 in sorted(repo.functions.items()):
        if not q_.startswith("selector."):
            continue
        for n in walk_local(f2.node):
            if isinstance(n, ast.Call) and isinstance(n.func, ast.Attribute) and isinstance(n.func.value, ast.Attribute) and n.func.value.attr == "_cache" \
                    and n.func.attr in ("clear", "pop", "popitem", "update", "setdefault", "__delitem__", "__setitem__"):
                shrinks.append(f"{q_}: {norm(n)[:50]}")
            elif isinstance(n, ast.Delete) and any("_cache" in norm(t) for t in n.targets):
                shrinks.append(f"{q_}: {norm(n)[:50]}")
            elif isinstance(n, ast.Assign) and any(isinstance(t, ast.Attribute) and t.attr == "_cache" for t in n.targets):
                shrinks.append(f"{q_}: {norm(n)[:50]}")
    stores = [n for n in walk_local(call.node) if isinstance(n, ast.Assign) and any(isinstance(t, ast.Subscript) and norm(t.value).endswith("._cache") for t in n.targets)]
    chk.ob("R15.1", "selector.InternedMC:intern-table-only-grows", not shrinks and len(stores) == 1 and conds(stores[0], call.node) == ["key not in cls._cache"], "ptera/selector.py",
           "the per-class intern table is written in one place only (a new entry on a miss) and never cleared, popped, replaced or deleted from: two structurally equal "
           "constructions are the same object however much is compiled in between" + (f" -- but {shrinks}" if shrinks else ""))
    new = repo.func("selector.InternedMC.__new__")
    chk.ob("R15.1", "selector.InternedMC.__new__:per-class-cache", any(isinstance(n, ast.Assign) and norm(n.targets[0]) == "dct['_cache']"
           and isinstance(n.value, ast.Dict) for n in walk_local(new.node)), new.where, "each interned class gets its own empty cache")
    sel = repo.cls("selector.Selector")
    chk.ob("R15.1", "selector.Selector:metaclass", any(k.arg == "metaclass" and is_name(k.value, "InternedMC") for k in sel.keywords),
           f"ptera/selector.py:{sel.lineno}", "Selector (base of Element and Call) uses the interning metaclass")
    for cls in FIELD_CLASSES:
        c = repo.cls(cls)
        chk.ob("R15.1", f"{cls}:subclass-of-Selector", any(is_name(b, "Selector") for b in c.bases) and not c.keywords,
               f"ptera/selector.py:{c.lineno}", f"{cls} inherits the interning metaclass")
    # no bypass of the metaclass anywhere in the package
    bypass = []
    for m in repo.modules.values():
        for n in ast.walk(m.tree):
            if isinstance(n, ast.Call):
                d = norm(n.func)
                if d in ("object.__new__", "type.__call__") or d.endswith(".__new__") and "super()" not in d:
                    bypass.append(f"{m.name}:{d}")
    chk.ob("R15.1", "package:no-metaclass-bypass", not bypass, "ptera/", f"no object.__new__/type.__call__ construction of selectors {bypass}")
    # immutability
    all_fields = set()
    per_cls = {}
    for cls in FIELD_CLASSES:
        init, fields = ctor_fields(repo, cls)
        if fields is None:
            chk.ob("R15.2", f"{cls}.__init__:keyword-only", False, init.where, "constructor has positional/variadic parameters")
            fields = []
        per_cls[cls] = (init, fields)
        all_fields |= set(fields)
    writes = []
    for m in repo.modules.values():
        for n in ast.walk(m.tree):
            if isinstance(n, ast.Attribute) and isinstance(n.ctx, (ast.Store, ast.Del)) and n.attr in all_fields:
                fn = n
                while fn is not None and not isinstance(fn, (ast.FunctionDef, ast.AsyncFunctionDef)):
                    fn = getattr(fn, "_parent", None)
                owner = getattr(fn, "_parent", None) if fn else None
                in_own_init = fn is not None and fn.name == "__init__" and is_name(n.value, "self")
                if in_own_init:
                    continue   # a constructor initialising its own object (any class)
                if m.name == "selector" or not is_name(n.value, "self"):
                    writes.append(f"{m.name}.py:{n.lineno} {norm(n)}")
            if isinstance(n, ast.Call) and is_name(n.func, "setattr") and len(n.args) == 3 and m.name == "selector":
                writes.append(f"{m.name}.py:{n.lineno} {norm(n)}")
    chk.ob("R15.1", "package:selector-fields-immutable", not writes, "ptera/",
           f"constructor fields {sorted(all_fields)} are never written outside a constructor {writes}")
    # values held in selector fields take part in the interning key: their equality must be structural and total
    n_val = 0
    for cq, cnode in sorted(repo.classes.items()):
        if not cq.startswith("selector.") or not any(isinstance(m_, ast.FunctionDef) and m_.name == "__eq__" for m_ in cnode.body):
            continue
        cname = cq.split(".")[1]
        init_ = next((m_ for m_ in cnode.body if isinstance(m_, ast.FunctionDef) and m_.name == "__init__"), None)
        eq_ = next(m_ for m_ in cnode.body if isinstance(m_, ast.FunctionDef) and m_.name == "__eq__")
        hash_ = next((m_ for m_ in cnode.body if isinstance(m_, ast.FunctionDef) and m_.name == "__hash__"), None)
        if init_ is None:
            continue
        n_val += 1
        fields_ = [t.attr for s_ in init_.body if isinstance(s_, ast.Assign) for t in s_.targets if isinstance(t, ast.Attribute) and is_name(t.value, "self")]
        other = eq_.args.args[1].arg
        isin = [c_ for c_ in ast.walk(eq_) if isinstance(c_, ast.Call) and is_name(c_.func, "isinstance") and len(c_.args) == 2 and is_name(c_.args[0], other)]
        compared = {c_.left.attr for c_ in ast.walk(eq_) if isinstance(c_, ast.Compare) and len(c_.ops) == 1 and isinstance(c_.ops[0], ast.Eq)
                    and isinstance(c_.left, ast.Attribute) and is_name(c_.left.value, "self") and isinstance(c_.comparators[0], ast.Attribute)
                    and is_name(c_.comparators[0].value, other) and c_.comparators[0].attr == c_.left.attr}
        ok_ = len(isin) == 1 and norm(isin[0].args[1]) == cname and compared == set(fields_)
        chk.ob("R15.1", f"selector.{cname}.__eq__:structural-equality-with-its-own-class", ok_, f"ptera/selector.py:{eq_.lineno}",
               f"{cname}.__eq__ holds exactly for another {cname} with equal fields {fields_} (isinstance test on `{norm(isin[0].args[1]) if isin else '?'}`, fields compared: {sorted(compared)}): "
               "equal value expressions make equal interning keys, so the same selector text always compiles to the same object")
        if hash_ is not None:
            hashed = {n_.attr for n_ in ast.walk(hash_) if isinstance(n_, ast.Attribute) and is_name(n_.value, "self")}
            chk.ob("R15.1", f"selector.{cname}.__hash__:over-the-compared-fields", hashed <= set(fields_) and bool(hashed), f"ptera/selector.py:{hash_.lineno}",
                   f"{cname}.__hash__ is computed from compared fields only ({sorted(hashed)}): equal objects hash alike")
    chk.count("value classes with structural equality", n_val)
    from .shared import shared_value_mutations
    muts = shared_value_mutations(repo, set(FIELD_CLASSES))
    chk.ob("R15.1", "selector:shared-values-never-changed-in-place", not muts, "ptera/selector.py",
           "no method of an interned selector class changes in place a value it read from an attribute (fields and cached properties are shared by every selector built from the same parts): "
           + ("results are always built in fresh containers" if not muts else str(muts)))
    for cls in FIELD_CLASSES:
        c = repo.cls(cls)
        clash = [n.name for n in c.body if isinstance(n, ast.FunctionDef) and any(is_name(d, "cached_property") for d in n.decorator_list)
                 and n.name in per_cls[cls][1]]
        chk.ob("R15.1", f"{cls}:cached-properties-disjoint", not clash, f"ptera/selector.py:{c.lineno}",
               f"cached_property writes derived attributes only (no clash with constructor fields) {clash}")

    # ---------------- R15.2
    for cls in FIELD_CLASSES:
        init, fields = per_cls[cls]
        c = repo.cls(cls)
        dflt = None
        for n in c.body:
            if isinstance(n, ast.Assign) and is_name(n.targets[0], "_constructor_defaults") and isinstance(n.value, ast.Dict):
                dflt = [k.value for k in n.value.keys]
        if dflt is None:
            raise AnalysisError(f"{cls}._constructor_defaults not found")
        chk.ob("R15.2", f"{cls}:defaults-subset-of-fields", set(dflt) <= set(fields), init.where,
               f"_constructor_defaults keys {dflt} are constructor fields {fields}")
        for f in fields:
            stored = any(isinstance(n, ast.Assign) and any(is_self_attr(t, f) for t in n.targets) and is_name(n.value, f)
                         for n in walk_local(init.node))
            chk.ob("R15.2", f"{cls}.__init__:store:{f}", stored, init.where, f"__init__ stores `{f}` in self.{f}")
        clone = repo.func(f"{cls}.clone")
        d = [n for n in walk_local(clone.node) if isinstance(n, ast.Dict)]
        ckeys = {}
        if d:
            for k, v in zip(d[0].keys, d[0].values):
                if k is not None:
                    ckeys[k.value] = v
        for f in fields:
            ok = f in ckeys and is_self_attr(ckeys[f], f)
            chk.ob("R15.2", f"{cls}.clone:field:{f}", ok, clone.where,
                   f"clone rebuilds `{f}` from self.{f} ({norm(ckeys[f]) if f in ckeys else 'missing'})")
        extra = sorted(set(ckeys) - set(fields))
        chk.ob("R15.2", f"{cls}.clone:no-extra-keys", not extra and any(k is None for k in d[0].keys) if d else False, clone.where,
               f"clone passes exactly the constructor fields plus the requested changes {extra}")
        short = cls.split(".")[1]
        rc = [r for r in returns_of(clone.node)]
        chk.ob("R15.2", f"{cls}.clone:through-interning", len(rc) == 1 and isinstance(rc[0].value, ast.Call) and is_name(rc[0].value.func, short)
               and any(k.arg is None for k in rc[0].value.keywords), clone.where, f"clone constructs through {short}(**args) (interned)")

    # ---------------- R15.3
    table, lexdefs = extract_tower(repo)
    with open(DATA) as f:
        data = json.load(f)
    chk.count("priority table entries", len(table))
    for row in data["obligations"]:
        got = sign(table, row["left"], row["right"])
        lhs = "start" if row["left"] is None else repr(row["left"])
        rhs = "end" if row["right"] is None else repr(row["right"])
        chk.ob("R15.3", f"sign:{row['left']!r}|{row['right']!r}", got == row["sign"], "ptera/selector.py (parser = ...)",
               f"{rhs} after {lhs}: needs {'open (+)' if row['sign'] == '+' else 'close (-)' if row['sign'] == '-' else 'merge (0)'}, "
               f"tower gives {got}; supports laws {', '.join(row['laws'])}",
               detail={"laws": {l: data["laws"].get(l) for l in row["laws"]}})
    chk.sample({"sign_matrix_row": {str(r): sign(table, ">", r) for r in [",", "", ">", "=", "~", ":", "as", "!", "!!", "$", "(", ")", "WORD", None]}, "left": ">"})
    # structure rows: how the parser consumes the order
    oc = repo.func("opparse.OperatorPrecedenceTower.__call__")
    r = [x for x in returns_of(oc.node) if isinstance(x.value, ast.BinOp)]
    ok = False
    if len(r) == 1 and isinstance(r[0].value.op, ast.Sub) and isinstance(r[0].value.left, ast.Name) and isinstance(r[0].value.right, ast.Name):
        rp, lp = r[0].value.left.id, r[0].value.right.id
        defs = {}
        for n in walk_local(oc.node):
            if isinstance(n, ast.Assign) and isinstance(n.targets[0], ast.Tuple) and isinstance(n.value, ast.Call) \
                    and norm(n.value.func) == "self.resolve":
                names = [e.id if isinstance(e, ast.Name) else None for e in n.targets[0].elts]
                defs[norm(n.value.args[0])] = names
        p = [x.arg for x in oc.node.args.args[1:]]
        ok = len(p) == 2 and defs.get(p[0], [None, None])[1] == lp and defs.get(p[1], [None, None])[0] == rp
    chk.ob("R15.3", "opparse.OperatorPrecedenceTower.__call__:rprio(right)-lprio(left)", ok, oc.where,
           "the order is rprio(right operator) - lprio(left operator)")
    pr = repo.func("opparse.Parser.process")
    fpp = facts_of(pr)
    ordv = (fpp.bound_to("self.order(left, right)") or ["order"])[0]
    from ..cfg import CFG
    from ..astq import literals as _lits
    gpp = CFG(pr.node, lambda s_: isinstance(s_, (ast.Raise, ast.Assert)))
    loop_heads = [n for n in gpp.nodes if n.kind == "test" and isinstance(n.stmt, ast.While)]

    def under(lit, *texts):
        """In the parser loop, once the test `lit` has been taken, every way to the next iteration runs each of the statements
        `texts` (must-pass-through on the CFG: a tail shared by several branches counts for each of them)."""
        tests = [n for n in gpp.nodes if n.kind == "test" and isinstance(n.stmt, ast.If) and _lits(n.stmt.test, True) == [lit]]
        if len(tests) != 1 or not loop_heads:
            return False
        starts = [m for m, lab in tests[0].succ if lab == "t"]
        for x in texts:
            marks = [n for n in gpp.nodes if n.kind == "stmt" and n.stmt is not None and any(t == x and m is n.stmt for t, c, m in fpp.items)]
            if not marks:
                return False
            for s0 in starts:
                if s0 in marks:
                    continue
                if any(gpp.path_exists(s0, h, avoid=marks, labels=("n", "t", "f")) for h in loop_heads) or gpp.path_exists(s0, gpp.exit, avoid=marks, labels=("n", "t", "f")):
                    return False
        return True
    # the token source: whatever local the advance `right = S.pop() if S else None` pops from (the reversed token list)
    advs = {norm(n.value) for n in walk_local(pr.node) if isinstance(n, ast.Assign) and any(is_name(t, "right") for t in n.targets) and isinstance(n.value, ast.IfExp)
            and isinstance(n.value.test, ast.Name) and norm(n.value) == f"{n.value.test.id}.pop() if {n.value.test.id} else None"}
    tokp = sorted(advs)[0].split(".")[0] if len(advs) == 1 else pr.node.args.args[1].arg
    srcs_ = [norm(n.value) for n in walk_local(pr.node) if isinstance(n, ast.Assign) and any(is_name(t, tokp) for t in n.targets)]
    chk.ob("R15.3", "opparse.Parser.process:tokens-taken-in-source-order", srcs_ == [f"list(reversed({pr.node.args.args[1].arg}))"], pr.where,
           f"the parser pops from the reversed token list, i.e. takes the tokens first to last (source of `{tokp}`: {srcs_})")
    chk.ob("R15.3", "opparse.Parser.process:positive-opens", under(f"{ordv} > 0", "stack.append(current)", f"right = {tokp}.pop() if {tokp} else None"),
           pr.where, "a positive order opens a new handle and advances")
    chk.ob("R15.3", "opparse.Parser.process:negative-closes", under(f"{ordv} < 0", "middle = self.finalize(current)", "current = stack.pop()"),
           pr.where, "a negative order closes the current handle")
    chk.ob("R15.3", "opparse.Parser.process:zero-merges", under(f"{ordv} == 0", "current.append(middle)", "current.append(right)", f"right = {tokp}.pop() if {tokp} else None"),
           pr.where, "a zero order merges into the current handle (brackets)")

    # ---------------- R15.4
    registered = {}
    for q, fi in repo.functions.items():
        if fi.module == "selector":
            for d in fi.node.decorator_list:
                if isinstance(d, ast.Call) and norm(d.func) == "evaluate.register_action":
                    for a_ in d.args:
                        registered[a_.value] = q
    need = ["X > X", "_ ! X", "_ !! X", "_ $ X", "X ( X ) _", "X ( _ ) _", "_ ( X ) _", "X , X", "X as X", "X = X", "X ~ X", "X : X", "_ : X", "SYMBOL"]
    for k in need:
        chk.ob("R15.4", f"evaluate.actions:{k}", k in registered, "ptera/selector.py", f"operator shape `{k}` has an action ({registered.get(k, 'none')})")
    ec = repo.func("selector.Evaluator.__call__")
    chk.ob("R15.4", "selector.Evaluator.__call__:dispatch-by-key", facts_of(ec).mentions("self.actions.get(key") and facts_of(ec).mentions("'SYMBOL'"),
           ec.where, "dispatch is by ASTNode.key, tokens dispatch to SYMBOL")
    # lexer: whitespace-insensitive operators
    import re._parser as sre
    op_rx = [rx for rx, t in lexdefs.items() if t == "OPERATOR"]
    ok = False
    if len(op_rx) == 1:
        p = sre.parse(op_rx[0])
        def is_ws_star(item, minimum):
            op, av = item
            return str(op) == "MAX_REPEAT" and av[0] == minimum and str(av[1]) == "MAXREPEAT" and len(av[2]) == 1 and str(av[2][0]) == "(IN, [(CATEGORY, CATEGORY_SPACE)])"
        if len(p) == 1 and str(p[0][0]) == "BRANCH":
            alts = p[0][1][1]
            ok = len(alts) == 2 and is_ws_star(alts[0][0], 0) and is_ws_star(alts[0][-1], 0) and len(alts[1]) == 1 and is_ws_star(alts[1][0], 1)
    chk.ob("R15.4", "selector.parser:lexer:operator-whitespace", ok, "ptera/selector.py (parser = ...)",
           "every operator alternative is wrapped by an unbounded \\s* on both sides (any amount of spacing or line breaks around an operator belongs to it) and bare whitespace is the juxtaposition operator")
    tk = repo.func("opparse.Token.__init__")
    chk.ob("R15.4", "opparse.Token.__init__:value-stripped", any(isinstance(n, ast.Assign) and is_self_attr(n.targets[0], "value")
           and norm(n.value) == "value.strip()" for n in walk_local(tk.node)), tk.where, "token values are stripped, so spacing never reaches operator keys")
    lx = repo.func("opparse.Lexer.__call__")
    chk.ob("R15.4", "opparse.Lexer.__call__:input-stripped", any(isinstance(n, ast.Assign) and norm(n) == "code = code.strip()" for n in walk_local(lx.node)),
           lx.where, "leading/trailing whitespace (incl. line breaks) is dropped before lexing")

    # ---------------- R15.5
    def tag_update(fn, op):
        r = returns_of(fn.node)
        if len(r) != 1:
            return False
        c = r[0].value
        v = kwarg(c, "tags") if isinstance(c, ast.Call) and norm(c.func) == "self.clone" else None
        return (v is not None and isinstance(v, ast.BinOp) and isinstance(v.op, op) and is_self_attr(v.left, "tags")
                and norm(v.right) in ("frozenset({1})", "{1}"))
    wf, wof = repo.func("selector.Element.with_focus"), repo.func("selector.Element.without_focus")
    chk.ob("R15.5", "selector.Element.with_focus:adds-tag-1", tag_update(wf, ast.BitOr), wf.where, "with_focus adds exactly tag 1")
    chk.ob("R15.5", "selector.Element.without_focus:removes-tag-1", tag_update(wof, ast.Sub), wof.where, "without_focus removes exactly tag 1")
    fo = repo.func("selector.Element.focus")
    chk.ob("R15.5", "selector.Element.focus:is-tag-1", norm(returns_of(fo.node)[0].value) == "1 in self.tags", fo.where, "focus means tag 1 is present")
    ni = repo.func("selector.make_nested_imm")
    ok = facts_of(ni).has("child = child.with_focus()", when=["isinstance(child, Element)"])
    chk.ob("R15.5", "selector.make_nested_imm:focus-after-last->", ok, ni.where, "the variable standing after `>` is focused")
    gc = repo.func("selector._guarantee_call")
    fgc = facts_of(gc)
    strip = [c for t, c, n in fgc.items if isinstance(n, ast.Assign) and "capture=None" in t and ".without_focus()" in t]
    chk.ob("R15.5", "selector._guarantee_call:strip-focus-and-capture", len(strip) == 1 and "isinstance(parent, Element)" in strip[0], gc.where,
           "the function position carries neither focus nor capture name")
    ms = repo.func("selector.make_symbol")
    chk.ob("R15.5", "selector.make_symbol:focus-only-at-root", facts_of(ms).mentions("tags=frozenset({1}) if context == 'root' else frozenset()"), ms.where,
           "a bare symbol is focused only in the root context (inside parentheses it needs `!`)")
    ma = repo.func("selector.make_as")
    fma = facts_of(ma)
    chk.ob("R15.5", "selector.make_as:call-alias-focuses-#value-only-at-root",
           fma.mentions("Element(name='#value', capture=name.name, tags=name.tags or (frozenset({1}) if context == 'root' else frozenset()))"), ma.where,
           "`f() as r` adds the capture #value as r, focused exactly when written at the root (f() as r == f(!#value as r))")
    chk.ob("R15.5", "selector.make_as:variable-alias-keeps-tags", fma.has("return element.clone(capture=name.name, tags=element.tags | name.tags)", exactly=["isinstance(element, Element)"]), ma.where,
           "`x as y` renames the capture and keeps the focus of either side")
    for fname in ("make_nested_imm", "make_call_capture", "make_as", "make_equals"):
        fi_ = repo.func(f"selector.{fname}")
        bad_ = []
        n_ = 0
        for c_ in ast.walk(fi_.node):
            if isinstance(c_, ast.Call) and isinstance(c_.func, ast.Attribute) and c_.func.attr == "clone":
                for k_ in c_.keywords:
                    from ..astq import concat_parts
                    parts_ = concat_parts(k_.value) if k_.arg in ("captures", "children") else []
                    if len(parts_) >= 2:
                        n_ += 1
                        if not (parts_[0][0] == "seq" and norm(parts_[0][1]).endswith("." + k_.arg)):
                            bad_.append(norm(k_.value))
        chk.ob("R15.5", f"selector.{fname}:appends-in-source-order", not bad_ and n_ >= 1, fi_.where,
               f"new captures / children are appended after the existing ones ({n_} site(s)): `f(a) > x` and `f(a, !x)` list their captures in the same order" + (f" -- {bad_}" if bad_ else ""))
    # an element derived from another element keeps every field it does not mean to change: it is cloned, or rebuilt from ALL fields
    rebuilt_bad, rebuilt_n = [], 0
    for cls_, fields_ in (("Element", ("name", "value", "category", "capture", "tags")), ("Call", ("element", "children", "captures", "immediate"))):
        init_ = repo.func(f"selector.{cls_}.__init__")
        fields_ = tuple(a.arg for a in init_.node.args.kwonlyargs) or fields_
        for q, fi_ in sorted(repo.functions.items()):
            if fi_.module != "selector":
                continue
            for c_ in walk_local(fi_.node):
                if isinstance(c_, ast.Call) and is_name(c_.func, cls_):
                    srcs = {}
                    for k_ in c_.keywords:
                        if k_.arg in fields_ and isinstance(k_.value, ast.Attribute) and isinstance(k_.value.value, ast.Name) and k_.value.attr == k_.arg:
                            srcs.setdefault(k_.value.value.id, set()).add(k_.arg)
                    for v_, copied in srcs.items():
                        if len(copied) >= 2:         # two or more fields taken over from the same object: a rebuild of that object
                            rebuilt_n += 1
                            given = {k_.arg for k_ in c_.keywords}
                            missing = [f_ for f_ in fields_ if f_ not in given]
                            if missing:
                                rebuilt_bad.append(f"{q}: {cls_}(...) rebuilt from `{v_}` without {missing} (they silently fall back to the defaults; use {v_}.clone(...))")
    chk.ob("R15.5", "selector:elements-derived-by-clone-keep-their-fields", not rebuilt_bad, "ptera/selector.py",
           f"a selector object derived from another one keeps the fields it does not change (focus tags included): derived by clone(), or rebuilt from all constructor fields ({rebuilt_n} rebuild site(s))"
           + (f" -- {rebuilt_bad}" if rebuilt_bad else ""))
    # the context (root / incall) of an operand is the context of the whole expression, except inside call parentheses
    ctx_bad, ctx_n = [], 0
    for q, fi_ in sorted(repo.functions.items()):
        if fi_.module != "selector" or fi_.parent is not None:
            continue
        if not any(isinstance(d, ast.Call) and norm(d.func) == "evaluate.register_action" for d in fi_.node.decorator_list):
            continue
        cparam = next((a.arg for a in fi_.node.args.args if a.arg == "context"), None)
        for c_ in ast.walk(fi_.node):
            if isinstance(c_, ast.Call) and is_name(c_.func, "evaluate") and c_.args:
                ctx_n += 1
                k_ = kwarg(c_, "context")
                want_ = "'incall'" if (fi_.node.name == "make_call_capture" and norm(c_.args[0]) == fi_.node.args.args[2].arg) else cparam
                if k_ is None or norm(k_) != want_:
                    ctx_bad.append(f"{fi_.node.name}: evaluate({norm(c_.args[0])}, context={norm(k_) if k_ is not None else 'missing'}) (expected context={want_})")
    chk.ob("R15.5", "selector.actions:context-propagation", not ctx_bad and ctx_n >= 10, "ptera/selector.py",
           f"every operand is evaluated in the context of the whole expression, only the argument list of a call is 'incall' ({ctx_n} operand evaluations): "
           "`a > f() as r` focuses #value exactly like `f() as r` does at the root (= `a(f(!#value as r))`)" + (f" -- {ctx_bad}" if ctx_bad else ""))
    mf = repo.func("selector.make_focus")
    from .shared import parse_is_stateless_obligations
    parse_is_stateless_obligations(repo, chk, "R15.1", "two spellings of one selector compile to the same object whatever was compiled before (a memo keyed on the text with its whitespace collapsed would confuse `x='a  b'` with `x='a b'`)")
    from .shared import call_extension_obligations
    call_extension_obligations(repo, chk, "R15.4")      # `f(g(y)) > h > x` and `f(g(y), h(!x))` are one selector: `>` appends to the calls already in the parentheses
    chk.ob("R15.5", "selector.make_focus:!-is-with_focus", facts_of(mf).has("return element.with_focus()", exactly=[]) and len(returns_of(mf.node)) == 1, mf.where, "`!x` focuses x")

    # fixtures (table kernel alive): a tower where `as` binds looser than `,` must flip obligations
    t2 = dict(table)
    t2["as"] = (5, 4)
    fired = any(sign(t2, r["left"], r["right"]) != r["sign"] for r in data["obligations"])
    chk.fixture("R15.3", "as below comma", True, fired)
