"""The shape of HandlerCollection.proceed, extracted once for C03 / C04 / C08 (roles found by what they are bound to,
conditions taken from astq.conds, positions from core.order): nothing here depends on local names or on whether the
code is written with nested ifs, guard clauses, temporaries or a comprehension."""
import ast
import re
from types import SimpleNamespace

from ..astq import conds, expand, is_name, returns_of
from ..core import AnalysisError, norm, order, walk_local


def proceed_shape(repo):
    pr = repo.func("overlay.HandlerCollection.proceed")
    loops = [n for n in walk_local(pr.node) if isinstance(n, ast.For) and norm(n.iter) == "self.handler_pairs"]
    if len(loops) != 1 or not (isinstance(loops[0].target, ast.Tuple) and len(loops[0].target.elts) == 2 and all(isinstance(e, ast.Name) for e in loops[0].target.elts)):
        raise AnalysisError("overlay.HandlerCollection.proceed: loop `for <selector>, <acc> in self.handler_pairs` not found")
    loop = loops[0]
    sel, acc = (e.id for e in loop.target.elts)
    fnparam = pr.node.args.args[1].arg
    r = returns_of(pr.node)
    inner = itor = None
    if len(r) == 1 and isinstance(r[0].value, ast.Tuple) and len(r[0].value.elts) == 2:
        m = re.fullmatch(r"HandlerCollection\((\w+)\)", expand(r[0].value.elts[1], pr.node))
        inner = m.group(1) if m else None
        m = re.fullmatch(r"\w+", norm(r[0].value.elts[0]))
        itor = m.group(0) if m else None
    fitvar = None
    for n in ast.walk(loop):
        if isinstance(n, ast.Assign) and len(n.targets) == 1 and isinstance(n.targets[0], ast.Name) and isinstance(n.value, ast.Call) \
                and norm(n.value.func) == "fits_selector" and [norm(a) for a in n.value.args] == [fnparam, sel]:
            fitvar = n.targets[0].id
    appends = [c for c in ast.walk(loop) if isinstance(c, ast.Call) and norm(c.func) == f"{inner}.append" and len(c.args) == 1]
    keeps = [c for c in appends if norm(c.args[0]) == f"({sel}, {acc})"]
    child_loops = [n for n in ast.walk(loop) if isinstance(n, ast.For) and norm(n.iter) == f"{sel}.children" and isinstance(n.target, ast.Name)]
    pushes = [c for c in appends if any(c is x for l in child_loops for x in ast.walk(l))]
    # every other use of the inner list (a different mutator, a rebinding, an alias) is reported by the rules
    others = [c for c in appends if c not in keeps and c not in pushes]
    for n in ast.walk(pr.node):
        if isinstance(n, ast.Name) and n.id == inner:
            p = n._parent
            if isinstance(p, ast.Attribute) and p.attr == "append" and isinstance(p._parent, ast.Call) and p._parent in appends:
                continue
            if isinstance(p, ast.Assign) and n in p.targets and norm(p.value) == "[]":
                continue
            if isinstance(p, ast.Call) and norm(p.func) == "HandlerCollection":
                continue
            if isinstance(p, (ast.Tuple, ast.Return)):
                continue
            others.append(n)
    inits = [n for n in walk_local(pr.node) if isinstance(n, ast.Assign) and norm(n) == f"{inner} = []"]
    itor_defs = [n for n in walk_local(pr.node) if isinstance(n, ast.Assign) and len(n.targets) == 1 and is_name(n.targets[0], str(itor))]
    forks = [n for n in ast.walk(loop) if isinstance(n, ast.Assign) and norm(n) == f"{acc} = {acc}.fork()"]
    regs = [c for c in ast.walk(loop) if isinstance(c, ast.Call) and norm(c.func) == f"{itor}.register"]

    def xconds(n):
        """conds() in which a local that was read from `<acc>.template` earlier in the same iteration stands for that
        read (is_template -> acc.template): the flag of the accumulator as it was before any fork."""
        reads = {}
        for a in ast.walk(loop):
            if isinstance(a, ast.Assign) and len(a.targets) == 1 and isinstance(a.targets[0], ast.Name) and norm(a.value) == f"{acc}.template":
                reads.setdefault(a.targets[0].id, []).append(a)
        out = []
        for c in conds(n, loop):
            parts = []
            for x in c.split(" or "):
                if x in reads and len(reads[x]) == 1 and order(reads[x][0]) < order(n) and not any(order(reads[x][0]) < order(f) < order(n) for f in forks if f is not n):
                    x = f"{acc}.template"
                parts.append(x)
            out.append(" or ".join(sorted(parts)))
        return out
    # the memo of the fit, in either spelling:  v = C.get(K); if v is None: v = fits(..); C[K] = v   |   if K in C: v = C[K] else: v = fits(..); C[K] = v
    memo = SimpleNamespace(ok=False, why="no lookup of the fit in _selector_fit_cache found", key=None, form=None)
    key_want = f"({fnparam}, {sel})"

    def keytext(e):
        t = expand(e, pr.node)
        return t if t.startswith("(") else f"({t})"
    reads = []
    for n in ast.walk(loop):
        if isinstance(n, ast.Assign) and len(n.targets) == 1 and is_name(n.targets[0], str(fitvar)):
            v = n.value
            if isinstance(v, ast.Call) and norm(v.func) == "_selector_fit_cache.get" and len(v.args) == 1:
                reads.append(("get", n, keytext(v.args[0])))
            elif isinstance(v, ast.Subscript) and norm(v.value) == "_selector_fit_cache":
                reads.append(("in", n, keytext(v.slice)))
    computes = [n for n in ast.walk(loop) if isinstance(n, ast.Assign) and len(n.targets) == 1 and is_name(n.targets[0], str(fitvar)) and norm(n.value) == f"fits_selector({fnparam}, {sel})"]
    stores = [n for n in ast.walk(pr.node) if isinstance(n, (ast.Assign, ast.AugAssign)) and any(norm(t).startswith("_selector_fit_cache[") for t in (n.targets if isinstance(n, ast.Assign) else [n.target]))]
    if len(reads) == 1 and len(computes) == 1:
        form, rd, key = reads[0]
        raw_keys = {norm(rd.value.args[0]) if form == "get" else norm(rd.value.slice)}
        if form == "get":
            miss = [f"{fitvar} is None"]
            hit_ok = conds(rd, loop) == [] and order(rd) < order(computes[0])
        else:
            hits = [c for c in conds(rd, loop)]
            miss = [f"{k} not in _selector_fit_cache" for k in raw_keys]
            hit_ok = hits == [f"{k} in _selector_fit_cache" for k in raw_keys]
        stores_ok = all(isinstance(n, ast.Assign) and keytext(n.targets[0].slice) == key and norm(n.value) == fitvar and conds(n, loop) == miss for n in stores)
        memo = SimpleNamespace(ok=key == key_want and hit_ok and conds(computes[0], loop) == miss and stores_ok, key=key, form=form,
                               why=f"lookup `{norm(rd)}` (key {key}), computed when {conds(computes[0], loop)}, stores {[norm(n) for n in stores]}")
    elif len(reads) != 1:
        memo.why = f"{len(reads)} lookups of the fit found"
    return SimpleNamespace(memo=memo, pr=pr, loop=loop, sel=sel, acc=acc, fn=fnparam, inner=inner, itor=itor, fitvar=fitvar, fit_lit=f"{fitvar} is not False", keeps=keeps,
                           child_loops=child_loops, pushes=pushes, others=others, inits=inits, itor_defs=itor_defs, forks=forks, regs=regs, ret=r, xconds=xconds)
