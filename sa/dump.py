"""Development aid: print the normalised source and the Facts of functions.  usage: python -m sa.dump <qual>... [--repo DIR]"""
import ast
import sys

from .astq import Facts
from .core import Repo

args = [a for a in sys.argv[1:] if not a.startswith("--")]
root = sys.argv[sys.argv.index("--repo") + 1] if "--repo" in sys.argv else None
if root in args:
    args.remove(root)
r = Repo(root)
for q in args:
    fi = r.func(q)
    print("=" * 20, q, fi.where)
    print(ast.unparse(fi.node))
    print("-" * 20)
    for t, c, n in Facts(fi.node).items:
        if isinstance(n, ast.stmt):
            print(f"  {t[:200]!r}   WHEN {list(c)}")
