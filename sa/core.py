"""Loader and index of the repository under analysis.

Everything is parsed from $VERIF_REPO (default /repo) on every run; nothing of ptera is imported.
"""
import ast
import hashlib
import os


class AnalysisError(Exception):
    """The analysis cannot be carried out (anchor vanished, construct outside the supported subset).

    Reported as ANALYSIS-ERROR with exit code 2: never a silent pass, never dressed as a violation.
    """


def repo_root():
    return os.environ.get("VERIF_REPO", "/repo")


class FuncInfo:
    __slots__ = ("qual", "node", "module", "cls", "parent")

    def __init__(self, qual, node, module, cls, parent):
        self.qual, self.node, self.module, self.cls, self.parent = qual, node, module, cls, parent

    @property
    def where(self):
        return f"ptera/{self.module}.py:{self.node.lineno}"

    def __repr__(self):
        return f"<fn {self.qual}>"


class ModuleInfo:
    def __init__(self, name, path, src, tree=None, keyword_names=frozenset(), stats=None):
        self.name, self.path, self.src = name, path, src
        self.tree = tree if tree is not None else ast.parse(src, path)
        self.digest = hashlib.sha256(src.encode()).hexdigest()[:16]
        from . import normal
        normal.normalise(self.tree, name, keyword_names, stats=stats)      # see normal.py: helper inlining, idioms, reference local names
        for parent in ast.walk(self.tree):
            for child in ast.iter_child_nodes(parent):
                child._parent = parent
        self.imports = {}       # local name -> (module, original name) for "from .x import y" / "import z"
        for n in ast.walk(self.tree):       # function-level imports too (`import codefind` inside a resolver)
            self._collect_import(n)

    def _collect_import(self, n):
        if isinstance(n, ast.ImportFrom):
            mod = ("." * n.level) + (n.module or "")
            for a in n.names:
                self.imports[a.asname or a.name] = (mod, a.name)
        elif isinstance(n, ast.Import):
            for a in n.names:
                self.imports[(a.asname or a.name).split(".")[0]] = (a.name, None)


class Repo:
    def __init__(self, root=None):
        self.root = root or repo_root()
        pkg = os.path.join(self.root, "ptera")
        if not os.path.isdir(pkg):
            raise AnalysisError(f"no ptera package under {self.root}")
        self.modules = {}
        self.normal_stats = {}
        parsed = []
        for fn in sorted(os.listdir(pkg)):
            if fn.endswith(".py"):
                p = os.path.join(pkg, fn)
                with open(p, encoding="utf8") as f:
                    src = f.read()
                try:
                    parsed.append((fn[:-3], p, src, ast.parse(src, p)))
                except SyntaxError as e:
                    raise AnalysisError(f"cannot parse {p}: {e}")
        from . import normal
        normal.ungroup_private_state({name: tree for name, _, _, tree in parsed}, stats=self.normal_stats)
        normal.undo_private_records({name: tree for name, _, _, tree in parsed}, stats=self.normal_stats)
        normal.strip_annotations({name: tree for name, _, _, tree in parsed}, stats=self.normal_stats)
        normal.strip_diagnostics({name: tree for name, _, _, tree in parsed}, stats=self.normal_stats)
        normal.undo_private_attr_renames({name: tree for name, _, _, tree in parsed}, stats=self.normal_stats)
        normal.undo_function_renames({name: tree for name, _, _, tree in parsed}, stats=self.normal_stats)
        normal.undo_private_attr_renames({name: tree for name, _, _, tree in parsed}, stats=self.normal_stats)
        normal.normalise_private_calls({name: tree for name, _, _, tree in parsed}, stats=self.normal_stats)
        keyword_names = frozenset(k.arg for _, _, _, t in parsed for n in ast.walk(t) if isinstance(n, ast.Call) for k in n.keywords if k.arg)
        for name, p, src, tree in parsed:
            self.modules[name] = ModuleInfo(name, p, src, tree, keyword_names, self.normal_stats)
        self.functions = {}   # qual -> FuncInfo
        self.classes = {}     # "mod.Class" -> ClassDef
        for m in self.modules.values():
            self._index(m, m.tree.body, m.name, None, None)

    def _index(self, m, body, prefix, cls, parent):
        for n in body:
            if isinstance(n, (ast.FunctionDef, ast.AsyncFunctionDef)):
                q = f"{prefix}.{n.name}"
                fi = FuncInfo(q, n, m.name, cls, parent)
                # several definitions with the same name (decorated re-registrations) get suffixes
                k, i = q, 1
                while k in self.functions:
                    i += 1
                    k = f"{q}#{i}"
                fi.qual = k
                self.functions[k] = fi
                self._index_nested(m, n, k, cls, fi)
            elif isinstance(n, ast.ClassDef):
                q = f"{prefix}.{n.name}"
                self.classes[q] = n
                n._module = m.name
                self._index(m, n.body, q, q, parent)
            elif isinstance(n, (ast.If, ast.Try, ast.With)):
                for fld in ("body", "orelse", "finalbody"):
                    self._index(m, getattr(n, fld, []) or [], prefix, cls, parent)
                for h in getattr(n, "handlers", []):
                    self._index(m, h.body, prefix, cls, parent)

    def _index_nested(self, m, fn, prefix, cls, parent):
        for n in ast.walk(fn):
            if n is fn:
                continue
            if isinstance(n, (ast.FunctionDef, ast.AsyncFunctionDef)) and self._owner(n) is fn:
                q = f"{prefix}.{n.name}"
                k, i = q, 1
                while k in self.functions:
                    i += 1
                    k = f"{q}#{i}"
                fi = FuncInfo(k, n, m.name, cls, parent)
                self.functions[k] = fi
                self._index_nested(m, n, k, cls, fi)

    @staticmethod
    def _owner(n):
        p = getattr(n, "_parent", None)
        while p is not None and not isinstance(p, (ast.FunctionDef, ast.AsyncFunctionDef, ast.Lambda, ast.ClassDef, ast.Module)):
            p = getattr(p, "_parent", None)
        return p

    # ---- anchors -------------------------------------------------------------------------------
    def module(self, name):
        if name not in self.modules:
            raise AnalysisError(f"anchor vanished: module ptera/{name}.py")
        return self.modules[name]

    def func(self, qual):
        if qual not in self.functions:
            raise AnalysisError(f"anchor vanished: function {qual}")
        return self.functions[qual]

    def has_func(self, qual):
        return qual in self.functions

    def cls(self, qual):
        if qual not in self.classes:
            raise AnalysisError(f"anchor vanished: class {qual}")
        return self.classes[qual]

    def methods(self, clsqual):
        return {q.rsplit(".", 1)[1]: fi for q, fi in self.functions.items()
                if fi.cls == clsqual and q.count(".") == clsqual.count(".") + 1}

    def mro(self, clsqual):
        """Package-local linearisation (single inheritance is all ptera uses)."""
        out, cur = [], clsqual
        while cur is not None and cur in self.classes and cur not in out:
            out.append(cur)
            nxt = None
            mod = cur.split(".")[0]
            for b in self.classes[cur].bases:
                if isinstance(b, ast.Name):
                    cand = f"{mod}.{b.id}"
                    if cand in self.classes:
                        nxt = cand
                        break
                    imp = self.modules[mod].imports.get(b.id)
                    if imp and imp[0].startswith("."):
                        cand = f"{imp[0].lstrip('.')}.{imp[1]}"
                        if cand in self.classes:
                            nxt = cand
                            break
            cur = nxt
        return out

    def resolve_method(self, clsqual, name):
        for c in self.mro(clsqual):
            q = f"{c}.{name}"
            if q in self.functions:
                return self.functions[q]
        return None

    def module_assign(self, module, name):
        """Value node of the module-level assignment `name = ...` (last one wins)."""
        val = None
        for n in self.module(module).tree.body:
            if isinstance(n, ast.Assign) and any(isinstance(t, ast.Name) and t.id == name for t in n.targets):
                val = n.value
            elif isinstance(n, ast.AnnAssign) and isinstance(n.target, ast.Name) and n.target.id == name:
                val = n.value
        if val is None:
            raise AnalysisError(f"anchor vanished: module-level name {module}.{name}")
        return val

    def digest(self, *modules):
        h = hashlib.sha256()
        for m in modules or sorted(self.modules):
            h.update(self.module(m).digest.encode())
        return h.hexdigest()[:16]


def norm(node):
    """Normalised source text of a node: the key material for findings (never line numbers)."""
    try:
        s = ast.unparse(node)
    except Exception:
        s = ast.dump(node)
    return " ".join(s.split())


def order(node):
    """Position of a node in the normalised tree (pre-order index): compare these, never line numbers."""
    return node._ord


def short(node, n=90):
    s = norm(node)
    return s if len(s) <= n else s[: n - 3] + "..."


def walk_local(fn):
    """Walk a function body without descending into nested function/class definitions (lambdas included)."""
    stack = list(reversed(fn.body)) if hasattr(fn, "body") and isinstance(fn.body, list) else [fn.body]
    while stack:
        n = stack.pop()
        yield n
        if isinstance(n, (ast.FunctionDef, ast.AsyncFunctionDef, ast.ClassDef)):
            continue
        stack.extend(reversed(list(ast.iter_child_nodes(n))))


def calls_in(node):
    return [n for n in ast.walk(node) if isinstance(n, ast.Call)]


def dotted(node):
    """'a.b.c' for a Name/Attribute chain, else None."""
    parts = []
    while isinstance(node, ast.Attribute):
        parts.append(node.attr)
        node = node.value
    if isinstance(node, ast.Name):
        parts.append(node.id)
        return ".".join(reversed(parts))
    return None


def call_name(node):
    """`<callee's last name>()` of the first call in a statement / expression: a key component that does not change when arguments or
    receivers are renamed (`rval = rval.wrap_functions(_tool)` -> `wrap_functions()`)."""
    for n in ast.walk(node):
        if isinstance(n, ast.Call):
            f = n.func
            return (f.attr if isinstance(f, ast.Attribute) else f.id if isinstance(f, ast.Name) else "call") + "()"
    return norm(node)[:40]
