"""Callee resolution, call graph and may-raise summaries over the ptera package (no imports of ptera)."""
import ast

from .core import dotted, norm, walk_local

# methods of builtin containers / strings / ContextVar etc.: never resolved to package methods by name alone
BUILTIN_METHODS = {
    "append", "extend", "insert", "sort", "index", "count", "copy", "clear", "keys", "values", "items", "get", "update",
    "setdefault", "add", "discard", "remove", "pop", "popitem", "split", "strip", "startswith", "endswith", "join", "format",
    "lower", "upper", "replace", "encode", "decode", "set", "reset", "group", "match", "fullmatch", "end", "start",
    "union", "intersection", "difference", "__add__",
}

EXC_PARENTS = {
    "BaseException": None, "Exception": "BaseException", "KeyboardInterrupt": "BaseException", "SystemExit": "BaseException",
    "GeneratorExit": "BaseException", "StopIteration": "Exception", "ArithmeticError": "Exception", "ZeroDivisionError": "ArithmeticError",
    "AssertionError": "Exception", "AttributeError": "Exception", "ImportError": "Exception", "ModuleNotFoundError": "ImportError",
    "LookupError": "Exception", "IndexError": "LookupError", "KeyError": "LookupError", "NameError": "Exception",
    "UnboundLocalError": "NameError", "OSError": "Exception", "RuntimeError": "Exception", "NotImplementedError": "RuntimeError",
    "RecursionError": "RuntimeError", "SyntaxError": "Exception", "TypeError": "Exception", "ValueError": "Exception",
    "UnicodeError": "ValueError",
}

# external calls that raise on user-controlled arguments: dotted-name suffix -> exception classes
EXTERNAL_RAISES = {
    "compile": ["SyntaxError", "ValueError", "TypeError"],
    "exec": ["Exception"],
    "inspect.getsource": ["OSError", "TypeError"],
    "inspect.getsourcelines": ["OSError", "TypeError"],
    "inspect.getsourcefile": ["TypeError"],
    "inspect.getfullargspec": ["TypeError"],
    "importlib.import_module": ["ModuleNotFoundError"],
    # read off codefind's source (registry.find_code: `filename = importlib.import_module(module).__file__; assert filename is not None;
    # return self.currcodes[path]`): TypeError = importlib refuses a relative module name ("/.x/f") without a package; AttributeError = the
    # module has no __file__ (built-in modules: "/sys/exit"); AssertionError = __file__ is None (namespace packages)
    "codefind.find_code": ["KeyError", "ModuleNotFoundError", "TypeError", "AttributeError", "AssertionError"],
    "ast.parse": ["SyntaxError"],
    "tokenize.tokenize": ["SyntaxError"],
}


class CallGraph:
    def __new__(cls, repo):
        # one call graph per loaded repository (it is a pure function of the parsed tree; rules only read it)
        got = getattr(repo, "_callgraph", None)
        if got is not None:
            return got
        self = super().__new__(cls)
        self._built = False
        repo._callgraph = self
        return self

    def __init__(self, repo):
        if self._built:
            return
        self._built = True
        self.repo = repo
        self.field_types = {}      # (class qual, attr) -> class qual   from `self.attr = Class(...)`
        self._collect_field_types()
        self.dispatch_vars = {}    # function qual -> {local var: [callee quals]}  (registered action tables)
        self._collect_dispatch()
        self.edges = {}            # caller qual -> list of (call node, [callee quals], external name or None)
        self.exc_classes = dict(EXC_PARENTS)
        for q, c in repo.classes.items():
            for b in c.bases:
                bn = dotted(b)
                if bn and (bn.split(".")[-1] in self.exc_classes or bn.split(".")[-1].endswith(("Error", "Exception"))):
                    self.exc_classes[c.name] = bn.split(".")[-1]
        self.param_bindings = {}   # (callee qual, param name) -> set of function quals passed at some call site
        for q, fi in repo.functions.items():
            self.edges[q] = [(c, *self.resolve(c, fi)) for c in self._calls(fi.node)]
        for _round in range(3):    # propagate function-valued arguments (wrap_functions(_tooler) -> wrap(...) calls _tooler)
            grew = False
            for q, fi in repo.functions.items():
                for c, callees, ext, how in self.edges[q]:
                    for cq in callees:
                        cfn = repo.functions[cq].node
                        params = [a.arg for a in cfn.args.args]
                        if repo.functions[cq].cls and params and params[0] in ("self", "cls"):
                            params = params[1:]
                        for i, a in enumerate(c.args):
                            tgt = None
                            if isinstance(a, ast.Name):
                                tq = self._lookup(a.id, fi.module, "function")
                                if tq:
                                    tgt = {tq}
                                elif (q, a.id) in self.param_bindings:
                                    tgt = self.param_bindings[(q, a.id)]
                            if tgt and i < len(params):
                                cur = self.param_bindings.setdefault((cq, params[i]), set())
                                if not tgt <= cur:
                                    cur |= tgt
                                    grew = True
            if not grew:
                break
            for q, fi in repo.functions.items():
                self.edges[q] = [(c, *self.resolve(c, fi)) for c in self._calls(fi.node)]
        self.stats = {"calls": 0, "resolved_internal": 0, "external": 0, "by_name": 0, "unresolved": 0}
        for q, es in self.edges.items():
            for c, callees, ext, how in es:
                self.stats["calls"] += 1
                if callees:
                    self.stats["resolved_internal"] += 1
                    if how == "by-name":
                        self.stats["by_name"] += 1
                elif ext:
                    self.stats["external"] += 1
                else:
                    self.stats["unresolved"] += 1
        self._raises = None

    @staticmethod
    def _calls(fn):
        return [n for n in walk_local(fn) if isinstance(n, ast.Call)]

    def _collect_field_types(self):
        self.attr_types = {}       # dunder attribute set on foreign objects: `fn.__ptera_stack__ = Class(...)` -> {attr: class qual}
        for q, fi in self.repo.functions.items():
            made = {}       # local name -> class, for `st = Class(...)` followed by `fn.__ptera_stack__ = st`
            for n in walk_local(fi.node):
                if isinstance(n, ast.Assign) and isinstance(n.value, ast.Call):
                    cq = self._class_of_name(n.value.func, fi.module)
                    if cq:
                        for t in n.targets:
                            if isinstance(t, ast.Attribute) and not (isinstance(t.value, ast.Name) and t.value.id == "self") and t.attr.startswith("__"):
                                self.attr_types[t.attr] = cq
                            elif isinstance(t, ast.Name):
                                made[t.id] = cq
            for n in walk_local(fi.node):
                if isinstance(n, ast.Assign) and isinstance(n.value, ast.Name) and n.value.id in made:
                    for t in n.targets:
                        if isinstance(t, ast.Attribute) and not (isinstance(t.value, ast.Name) and t.value.id == "self") and t.attr.startswith("__"):
                            self.attr_types[t.attr] = made[n.value.id]
        for q, fi in self.repo.functions.items():
            if fi.cls is None:
                continue
            for n in walk_local(fi.node):
                if isinstance(n, ast.Assign) and isinstance(n.value, ast.Call):
                    cq = self._class_of_name(n.value.func, fi.module)
                    if cq:
                        for t in n.targets:
                            if isinstance(t, ast.Attribute) and isinstance(t.value, ast.Name) and t.value.id == "self":
                                self.field_types[(fi.cls, t.attr)] = cq

    def module_instance(self, name, module):
        """class qual when `name` is a module-level instance `name = Class(...)` (possibly imported from a package module)."""
        m = self.repo.modules[module]
        imp = m.imports.get(name)
        if imp and imp[0].startswith(".") and imp[0].lstrip(".") in self.repo.modules:
            module, name = imp[0].lstrip("."), imp[1]
            m = self.repo.modules[module]
        for n in m.tree.body:
            if isinstance(n, ast.Assign) and any(isinstance(t, ast.Name) and t.id == name for t in n.targets) and isinstance(n.value, ast.Call):
                return self._class_of_name(n.value.func, module)
        return None

    def _collect_dispatch(self):
        """`action = self.actions.get(key)` ... `action(...)`: callees are all functions registered through a decorator
        `<instance>.register_action(...)` (context-insensitive: the two evaluators share one __call__)."""
        registered = [q for q, fi in self.repo.functions.items()
                      if any(isinstance(d, ast.Call) and isinstance(d.func, ast.Attribute) and d.func.attr == "register_action"
                             for d in fi.node.decorator_list)]
        for q, fi in self.repo.functions.items():
            for n in walk_local(fi.node):
                if isinstance(n, ast.Assign) and isinstance(n.targets[0], ast.Name) and "self.actions" in norm(n.value):
                    self.dispatch_vars.setdefault(q, {})[n.targets[0].id] = registered

    def _class_of_name(self, func, module):
        d = dotted(func)
        if not d:
            return None
        return self._lookup(d, module, want="class")

    def _lookup(self, d, module, want="any"):
        """Resolve a dotted name used in `module` to a package class or function qual."""
        m = self.repo.modules[module]
        parts = d.split(".")
        head = parts[0]
        cands = []
        if f"{module}.{d}" in self.repo.classes or f"{module}.{d}" in self.repo.functions:
            cands.append(f"{module}.{d}")
        imp = m.imports.get(head)
        if imp:
            mod, orig = imp
            if mod.startswith("."):
                pm = mod.lstrip(".")
                if pm == "" and orig in self.repo.modules:        # from . import opparse
                    cands.append(".".join([orig] + parts[1:]))
                elif pm in self.repo.modules:
                    cands.append(".".join([pm, orig] + parts[1:]))
        for c in cands:
            if want in ("any", "class") and c in self.repo.classes:
                return c
            if want in ("any", "function") and c in self.repo.functions:
                return c
        return None

    def local_types(self, fi):
        """var -> class qual for `v = Class(...)` and `v = self.field` inside one function."""
        out = {}
        for n in walk_local(fi.node):
            if isinstance(n, ast.Assign) and len(n.targets) == 1:
                ts = n.targets if not isinstance(n.targets[0], ast.Tuple) else []
                val = n.value
                # chained: st = fn.__ptera_stack__ = Synced(...)
                for t in n.targets:
                    if isinstance(t, ast.Name):
                        if isinstance(val, ast.Call) and isinstance(val.func, ast.Name) and val.func.id == "getattr" and len(val.args) >= 2 \
                                and isinstance(val.args[1], ast.Constant) and val.args[1].value in self.attr_types:
                            out[t.id] = self.attr_types[val.args[1].value]     # st = getattr(fn, "__ptera_stack__", None)
                        elif isinstance(val, ast.Call):
                            cq = self._class_of_name(val.func, fi.module)
                            if cq:
                                out[t.id] = cq
                        elif isinstance(val, ast.Attribute) and isinstance(val.value, ast.Name) and val.value.id == "self" and fi.cls:
                            ft = self.field_types.get((fi.cls, val.attr))
                            if ft:
                                out[t.id] = ft
                        elif isinstance(val, ast.Attribute) and val.attr in self.attr_types:
                            out[t.id] = self.attr_types[val.attr]
            if isinstance(n, ast.Assign) and len(n.targets) > 1 and isinstance(n.value, ast.Call):
                cq = self._class_of_name(n.value.func, fi.module)
                if cq:
                    for t in n.targets:
                        if isinstance(t, ast.Name):
                            out[t.id] = cq
        return out

    def resolve(self, call, fi):
        """-> (list of callee quals, external dotted name or None, how)"""
        repo = self.repo
        f = call.func
        if isinstance(f, ast.Name):
            # nested function in an enclosing function
            cur = fi
            while cur is not None:
                q = f"{cur.qual}.{f.id}"
                if q in repo.functions:
                    return [q], None, "nested"
                cur = cur.parent
            q = self._lookup(f.id, fi.module)
            if q in repo.functions:
                return [q], None, "module"
            if q in repo.classes:
                init = repo.resolve_method(q, "__init__")
                callees = [init.qual] if init else []
                meta = [k.value for k in repo.classes[q].keywords if k.arg == "metaclass"]
                for c in repo.mro(q):
                    for k in repo.classes[c].keywords:
                        if k.arg == "metaclass" and isinstance(k.value, ast.Name):
                            mq = self._lookup(k.value.id, c.split(".")[0], "class")
                            mc = repo.resolve_method(mq, "__call__") if mq else None
                            if mc:
                                callees.append(mc.qual)
                return callees, (None if callees else q), "class"
            imp = repo.modules[fi.module].imports.get(f.id)
            if imp and not imp[0].startswith("."):
                return [], f"{imp[0]}.{imp[1]}" if imp[1] else imp[0], "external"
            inst = self.module_instance(f.id, fi.module)
            if inst:
                m = repo.resolve_method(inst, "__call__")
                if m:
                    return [m.qual], None, "instance"
            if (fi.qual, f.id) in getattr(self, "param_bindings", {}):
                return sorted(self.param_bindings[(fi.qual, f.id)]), None, "function-parameter"
            if f.id in self.dispatch_vars.get(fi.qual, {}):
                return list(self.dispatch_vars[fi.qual][f.id]), None, "dispatch-table"
            return [], f.id, "builtin"
        if isinstance(f, ast.Attribute):
            recv = f.value
            # self.m()
            if isinstance(recv, ast.Name) and recv.id == "self" and fi.cls:
                m = repo.resolve_method(fi.cls, f.attr)
                if m:
                    subs = [q for q, x in repo.functions.items() if x.cls and x.cls != fi.cls and fi.cls in repo.mro(x.cls)
                            and q.endswith("." + f.attr) and q.count(".") == x.cls.count(".") + 1]
                    return [m.qual] + subs, None, "self"
                return [], f"self.{f.attr}", "external-base"
            # super().m()
            if isinstance(recv, ast.Call) and isinstance(recv.func, ast.Name) and recv.func.id == "super" and fi.cls:
                mro = repo.mro(fi.cls)
                for c in mro[1:]:
                    if f"{c}.{f.attr}" in repo.functions:
                        return [f"{c}.{f.attr}"], None, "super"
                return [], f"super().{f.attr}", "external-base"
            d = dotted(f)
            if d:
                q = self._lookup(d, fi.module)
                if q in repo.functions:
                    return [q], None, "qualified"
                if q in repo.classes:
                    init = repo.resolve_method(q, "__init__")
                    return ([init.qual] if init else []), None, "class"
                head = d.split(".")[0]
                imp = repo.modules[fi.module].imports.get(head)
                if imp and not imp[0].startswith("."):
                    base = imp[0] if imp[1] is None else f"{imp[0]}.{imp[1]}"
                    return [], ".".join([base] + d.split(".")[1:]), "external"
                # typed local receiver / self.field receiver
                lt = self.local_types(fi)
                cq = None
                if isinstance(recv, ast.Name) and recv.id in lt:
                    cq = lt[recv.id]
                elif isinstance(recv, ast.Attribute) and isinstance(recv.value, ast.Name) and recv.value.id == "self" and fi.cls:
                    for c in repo.mro(fi.cls):
                        cq = cq or self.field_types.get((c, recv.attr))
                elif isinstance(recv, ast.Attribute) and recv.attr in self.attr_types:
                    cq = self.attr_types[recv.attr]
                if cq:
                    m = repo.resolve_method(cq, f.attr)
                    if m:
                        return [m.qual], None, "typed"
            if f.attr in BUILTIN_METHODS:
                return [], f"<obj>.{f.attr}", "builtin-method"
            cands = [q for q, x in repo.functions.items() if x.cls and q.endswith("." + f.attr) and q.count(".") == x.cls.count(".") + 1]
            if cands:
                return cands, None, "by-name"
            return [], d or f"<expr>.{f.attr}", "unknown"
        return [], None, "dynamic"

    # ------------------------------------------------------------------------------- may-raise summaries
    def exc_subclass(self, a, b):
        cur = a
        while cur is not None:
            if cur == b:
                return True
            cur = self.exc_classes.get(cur)
        return False

    def raised_class(self, raise_node, fi):
        e = raise_node.exc
        if e is None:
            return None                                   # re-raise: handled by the handler logic
        if isinstance(e, ast.Call):
            d = dotted(e.func)
            if d and d.split(".")[-1] in self.exc_classes:
                return d.split(".")[-1]
            callees, ext, how = self.resolve(e, fi)
            for q in callees:                             # raise helper(...)  -> class of what the helper returns
                for r in walk_local(self.repo.functions[q].node):
                    if isinstance(r, ast.Return) and isinstance(r.value, ast.Name):
                        for a in walk_local(self.repo.functions[q].node):
                            if isinstance(a, ast.Assign) and isinstance(a.targets[0], ast.Name) and a.targets[0].id == r.value.id \
                                    and isinstance(a.value, ast.Call):
                                dd = dotted(a.value.func)
                                if dd and dd.split(".")[-1] in self.exc_classes:
                                    return dd.split(".")[-1]
            return "Exception"
        if isinstance(e, ast.Name) and e.id in self.exc_classes:
            return e.id
        return "Exception"

    def _handler_classes(self, h):
        if h.type is None:
            return ["BaseException"]
        ts = h.type.elts if isinstance(h.type, ast.Tuple) else [h.type]
        return [(dotted(t) or "Exception").split(".")[-1] for t in ts]

    def _caught(self, node, fi, cls):
        """Is exception class `cls` raised at `node` caught (and not re-raised) inside fi?"""
        cur, child = getattr(node, "_parent", None), node
        while cur is not None and cur is not fi.node:
            if isinstance(cur, ast.Try) and child in cur.body:
                for h in cur.handlers:
                    if any(self.exc_subclass(cls, hc) for hc in self._handler_classes(h)):
                        reraises = any(isinstance(n, ast.Raise) and n.exc is None for n in ast.walk(ast.Module(body=h.body, type_ignores=[])))
                        if not reraises:
                            return True
                        break
            child, cur = cur, getattr(cur, "_parent", None)
        return False

    def external_raises(self, ext, call):
        if not ext:
            return []
        for k, v in EXTERNAL_RAISES.items():
            if ext == k or ext.endswith("." + k):
                return v
        if ext == "getattr" and len(call.args) == 2:
            return ["AttributeError"]
        return []

    def raises(self):
        """qual -> {exception class: witness text} escaping the function (fixpoint over the call graph)."""
        if self._raises is not None:
            return self._raises
        R = {q: {} for q in self.repo.functions}
        changed = True
        while changed:
            changed = False
            for q, fi in self.repo.functions.items():
                new = {}
                for n in walk_local(fi.node):
                    if isinstance(n, ast.Raise):
                        c = self.raised_class(n, fi)
                        if c and not self._caught(n, fi, c):
                            new.setdefault(c, f"{fi.module}.py:{n.lineno} {norm(n)[:80]}")
                    elif isinstance(n, ast.Assert):
                        if not self._caught(n, fi, "AssertionError"):
                            new.setdefault("AssertionError", f"{fi.module}.py:{n.lineno} {norm(n)[:80]}")
                for c, callees, ext, how in self.edges[q]:
                    for cls in self.external_raises(ext, c):
                        if not self._caught(c, fi, cls):
                            new.setdefault(cls, f"{fi.module}.py:{c.lineno} {norm(c)[:60]}")
                    for cq in callees:
                        for cls, w in R[cq].items():
                            if not self._caught(c, fi, cls):
                                new.setdefault(cls, f"{fi.module}.py:{c.lineno} {norm(c.func)}() <- {w}")
                if set(new) != set(R[q]):
                    R[q] = new
                    changed = True
        self._raises = R
        return R

    def stmt_may_raise(self, fi):
        """Predicate for CFG construction: does this statement have an exception edge (under the stated assumptions)?"""
        R = self.raises()
        by_node = {id(c): (callees, ext, how) for c, callees, ext, how in self.edges[fi.qual]}

        def pred(stmt):
            if isinstance(stmt, (ast.Raise, ast.Assert)):
                return True
            for n in ast.walk(stmt) if not isinstance(stmt, (ast.FunctionDef, ast.AsyncFunctionDef, ast.ClassDef)) else []:
                if isinstance(n, (ast.Yield, ast.YieldFrom, ast.Await)):
                    return True
                if isinstance(n, ast.Call) and id(n) in by_node:
                    callees, ext, how = by_node[id(n)]
                    if self.external_raises(ext, n):
                        return True
                    if any(R[c] for c in callees):
                        return True
            return False
        return pred

    def callers_of(self, qual):
        out = []
        for q, es in self.edges.items():
            for c, callees, ext, how in es:
                if qual in callees:
                    out.append((q, c, how))
        return out
