"""Statement-level control-flow graph with exception edges for one Python function.

Nodes are simple statements, branch tests, loop heads, `with` enter/exit points and handler dispatch points.
`finally` bodies and `with` exits are duplicated per way of leaving (normal, exception, return, break, continue),
so path queries are exact for the statement forms ptera's runtime modules use.  Path feasibility is not decided
beyond structure (no conditions are evaluated); rules that need more say so.
"""
import ast

from .core import AnalysisError, norm


class Node:
    __slots__ = ("id", "kind", "stmt", "succ", "pred", "note")

    def __init__(self, id, kind, stmt, note=""):
        self.id, self.kind, self.stmt, self.note = id, kind, stmt, note
        self.succ = []   # list of (node, label)  label: "n" normal, "e" exception, "t"/"f" branch
        self.pred = []

    @property
    def line(self):
        return getattr(self.stmt, "lineno", 0)

    def text(self):
        if self.stmt is None:
            return self.kind
        if self.kind in ("test", "for", "with_enter", "with_exit", "dispatch", "match"):
            return f"{self.kind}:{self.note}"
        return norm(self.stmt)

    def __repr__(self):
        return f"<{self.id}:{self.kind}:{self.text()[:50]}>"


def default_may_raise(stmt):
    """Conservative default: anything that calls, subscripts, raises or asserts may raise."""
    if isinstance(stmt, (ast.Raise, ast.Assert)):
        return True
    for n in ast.walk(stmt):
        if isinstance(n, (ast.Call, ast.Subscript, ast.Raise, ast.Assert, ast.Await, ast.Yield, ast.YieldFrom)):
            return True
        if isinstance(n, (ast.FunctionDef, ast.AsyncFunctionDef, ast.Lambda)) and n is not stmt:
            continue
    return False


class CFG:
    def __init__(self, fn, may_raise=default_may_raise):
        self.fn = fn
        self.may_raise = may_raise
        self.nodes = []
        self.entry = self._new("entry", None)
        self.exit = self._new("exit", None)          # normal return / fall off the end
        self.raise_exit = self._new("raise", None)   # exception leaves the function
        body = fn.body if isinstance(fn.body, list) else [ast.Return(value=fn.body)]
        frames = [("function",)]
        outs = self._block(body, [(self.entry, "n")], frames)
        for o, lab in outs:
            self._edge(o, self.exit, lab)

    # ------------------------------------------------------------------ construction
    def _new(self, kind, stmt, note=""):
        n = Node(len(self.nodes), kind, stmt, note)
        self.nodes.append(n)
        return n

    def _edge(self, a, b, lab="n"):
        if (b, lab) not in a.succ:
            a.succ.append((b, lab))
            b.pred.append((a, lab))

    def _connect(self, preds, node):
        for p, lab in preds:
            self._edge(p, node, lab)

    def _block(self, stmts, preds, frames):
        for s in stmts:
            preds = self._stmt(s, preds, frames)
        return preds

    def _simple(self, s, preds, frames, kind="stmt", note=""):
        n = self._new(kind, s, note)
        self._connect(preds, n)
        probe = s
        if kind in ("test", "for", "with_enter", "match"):
            probe = {"test": getattr(s, "test", None), "for": getattr(s, "iter", None),
                     "match": getattr(s, "subject", None)}.get(kind) or s
            if kind == "with_enter":
                probe = ast.Expr(value=ast.Call(func=ast.Name(id="__enter__", ctx=ast.Load()), args=[], keywords=[]))
        if self.may_raise(probe):
            self._jump("raise", n, frames, "e")
        return n

    def _stmt(self, s, preds, frames):
        if isinstance(s, ast.If):
            t = self._simple(s, preds, frames, "test", norm(s.test))
            a = self._block(s.body, [(t, "t")], frames)
            b = self._block(s.orelse, [(t, "f")], frames) if s.orelse else [(t, "f")]
            return a + b
        if isinstance(s, ast.While):
            t = self._simple(s, preds, frames, "test", norm(s.test))
            after = []
            fr = frames + [("loop", t, after)]
            outs = self._block(s.body, [(t, "t")], fr)
            self._connect(outs, t)
            const_true = isinstance(s.test, ast.Constant) and bool(s.test.value)
            tail = [] if const_true else [(t, "f")]
            if s.orelse:
                tail = self._block(s.orelse, tail, frames)
            return tail + after
        if isinstance(s, (ast.For, ast.AsyncFor)):
            it = self._simple(s, preds, frames, "for", norm(s.iter))
            after = []
            fr = frames + [("loop", it, after)]
            outs = self._block(s.body, [(it, "t")], fr)
            self._connect(outs, it)
            tail = [(it, "f")]
            if s.orelse:
                tail = self._block(s.orelse, tail, frames)
            return tail + after
        if isinstance(s, (ast.With, ast.AsyncWith)):
            return self._with(s, 0, preds, frames)
        if isinstance(s, ast.Try) or s.__class__.__name__ == "TryStar":
            return self._try(s, preds, frames)
        if isinstance(s, ast.Match):
            m = self._simple(s, preds, frames, "match", norm(s.subject))
            outs = []
            exhaustive = False
            for case in s.cases:
                outs += self._block(case.body, [(m, "t")], frames)
                if isinstance(case.pattern, ast.MatchAs) and case.pattern.pattern is None and case.guard is None:
                    exhaustive = True
            if not exhaustive:
                outs.append((m, "f"))
            return outs
        if isinstance(s, ast.Return):
            n = self._simple(s, preds, frames)
            self._jump("return", n, frames, "n")
            return []
        if isinstance(s, ast.Raise):
            n = self._new("stmt", s)
            self._connect(preds, n)
            self._jump("raise", n, frames, "e")
            return []
        if isinstance(s, ast.Break):
            n = self._simple(s, preds, frames)
            self._jump("break", n, frames, "n")
            return []
        if isinstance(s, ast.Continue):
            n = self._simple(s, preds, frames)
            self._jump("continue", n, frames, "n")
            return []
        if isinstance(s, ast.Assert):
            n = self._new("stmt", s)
            self._connect(preds, n)
            self._jump("raise", n, frames, "e")
            return [(n, "n")]
        # simple statements, nested defs and classes
        if isinstance(s, (ast.FunctionDef, ast.AsyncFunctionDef, ast.ClassDef)):
            n = self._new("stmt", s)
            self._connect(preds, n)
            return [(n, "n")]
        n = self._simple(s, preds, frames)
        return [(n, "n")]

    def _with(self, s, i, preds, frames):
        if i >= len(s.items):
            return self._block(s.body, preds, frames)
        item = s.items[i]
        enter = self._simple(item, preds, frames, "with_enter", norm(item.context_expr))
        # evaluating the context expression itself may raise as well
        if self.may_raise(item.context_expr):
            self._jump("raise", enter, frames, "e")
        fr = frames + [("with", item, {})]
        outs = self._with(s, i + 1, [(enter, "n")], fr)
        ex = self._new("with_exit", item, norm(item.context_expr))
        self._connect(outs, ex)
        return [(ex, "n")]

    def _try(self, s, preds, frames):
        has_finally = bool(s.finalbody)
        fin_frame = ("finally", s, {}) if has_finally else None
        outer = frames + ([fin_frame] if has_finally else [])
        if s.handlers:
            disp = self._new("dispatch", s, f"{len(s.handlers)} handler(s)")
            body_frames = outer + [("except", disp)]
        else:
            disp = None
            body_frames = outer
        outs = self._block(s.body, preds, body_frames)
        if s.orelse:
            outs = self._block(s.orelse, outs, outer)
        if disp is not None:
            catch_all = False
            for h in s.handlers:
                hn = self._new("handler", h, norm(h.type) if h.type is not None else "<bare>")
                self._edge(disp, hn, "n")
                outs += self._block(h.body, [(hn, "n")], outer)
                if h.type is None or (isinstance(h.type, ast.Name) and h.type.id == "BaseException"):
                    catch_all = True
            if not catch_all:
                self._jump("raise", disp, outer, "e")
        if has_finally:
            outs = self._block(s.finalbody, outs, frames)   # normal completion copy
        return outs

    def _jump(self, kind, node, frames, label):
        """Wire `node` to the target of a non-local exit, through enclosing finally blocks / with exits."""
        cur = [(node, label)]
        for idx in range(len(frames) - 1, -1, -1):
            fr = frames[idx]
            tag = fr[0]
            if tag == "finally":
                cache = fr[2]
                if kind in cache:
                    self._connect(cur, cache[kind])
                    return                      # the copy is already wired outward
                entry_marker = self._new("finally", fr[1], kind)
                cache[kind] = entry_marker
                self._connect(cur, entry_marker)
                outs = self._block(fr[1].finalbody, [(entry_marker, "n")], frames[:idx])
                cur = [(o, "e" if kind == "raise" else l) for o, l in outs]
            elif tag == "with":
                cache = fr[2]
                if kind in cache:
                    self._connect(cur, cache[kind])
                    return
                ex = self._new("with_exit", fr[1], norm(fr[1].context_expr) + f" [{kind}]")
                cache[kind] = ex
                self._connect(cur, ex)
                cur = [(ex, "e" if kind == "raise" else "n")]
            elif tag == "except" and kind == "raise":
                self._connect(cur, fr[1])
                return
            elif tag == "loop" and kind in ("break", "continue"):
                if kind == "break":
                    fr[2].extend(cur)
                else:
                    self._connect(cur, fr[1])
                return
            elif tag == "function":
                if kind == "return":
                    self._connect(cur, self.exit)
                elif kind == "raise":
                    self._connect(cur, self.raise_exit)
                else:
                    raise AnalysisError(f"{kind} outside loop in {getattr(self.fn, 'name', '?')}")
                return

    # ------------------------------------------------------------------ queries
    def find(self, pred):
        return [n for n in self.nodes if n.stmt is not None and n.kind in ("stmt", "test", "for", "with_enter", "with_exit", "match", "handler") and pred(n)]

    def reach(self, srcs, avoid=(), labels=None, forward=True):
        """Nodes reachable from `srcs` (exclusive of srcs unless on a cycle) without entering `avoid`."""
        avoid = {n.id for n in avoid}
        seen, stack = set(), []
        for s in srcs:
            for m, lab in (s.succ if forward else s.pred):
                if labels is None or lab in labels:
                    stack.append(m)
        while stack:
            n = stack.pop()
            if n.id in seen or n.id in avoid:
                continue
            seen.add(n.id)
            for m, lab in (n.succ if forward else n.pred):
                if labels is None or lab in labels:
                    stack.append(m)
        return seen

    def path_exists(self, src, dst, avoid=(), labels=None):
        return dst.id in self.reach([src], avoid, labels)

    def reachable_nodes(self):
        ids = self.reach([self.entry]) | {self.entry.id}
        return [n for n in self.nodes if n.id in ids]

    def witness_path(self, src, dst, avoid=(), labels=None):
        """One path src -> dst avoiding `avoid`, as node texts (for diagnosable reports)."""
        avoid = {n.id for n in avoid}
        prev = {src.id: None}
        queue = [src]
        while queue:
            n = queue.pop(0)
            for m, lab in n.succ:
                if labels is not None and lab not in labels:
                    continue
                if m.id in prev or (m.id in avoid and m.id != dst.id):
                    continue
                prev[m.id] = (n, lab)
                if m.id == dst.id:
                    out, cur = [], m
                    while cur is not None:
                        out.append(cur)
                        p = prev[cur.id]
                        cur = p[0] if p else None
                    return [f"L{x.line}:{x.text()[:70]}" if x.stmt is not None else x.kind for x in reversed(out)]
                queue.append(m)
        return None

    def dominators(self):
        nodes = self.reachable_nodes()
        ids = [n.id for n in nodes]
        full = set(ids)
        dom = {i: set(full) for i in ids}
        dom[self.entry.id] = {self.entry.id}
        changed = True
        while changed:
            changed = False
            for n in nodes:
                if n is self.entry:
                    continue
                ps = [dom[p.id] for p, _ in n.pred if p.id in dom]
                new = (set.intersection(*ps) if ps else set()) | {n.id}
                if new != dom[n.id]:
                    dom[n.id] = new
                    changed = True
        return dom
