"""Acquire/release classification of statements and the pairing kernels (rollback on exception edges,
inverse pairing of enter/exit-like methods).  The table below is frozen from reading the code; each row
carries its reason."""
import ast

from .astq import is_name, kwarg
from .cfg import CFG
from .core import call_name, dotted, norm, walk_local


def contextvars_of(repo):
    """Dotted suffixes ('HandlerCollection.current') of ContextVar objects created in the package."""
    out = set()
    for q, c in repo.classes.items():
        for n in c.body:
            if isinstance(n, ast.Assign) and isinstance(n.value, ast.Call) and (dotted(n.value.func) or "").endswith("ContextVar"):
                for t in n.targets:
                    if isinstance(t, ast.Name):
                        out.add(f"{c.name}.{t.id}")
    for m in repo.modules.values():
        for n in m.tree.body:
            if isinstance(n, ast.Assign) and isinstance(n.value, ast.Call) and (dotted(n.value.func) or "").endswith("ContextVar"):
                for t in n.targets:
                    if isinstance(t, ast.Name):
                        out.add(t.id)
    return out


def _wrapper_role(arg, at):
    """'_tooler' / '_untooler' when `arg` names that function or a nested function (of an enclosing function) that calls it."""
    if not isinstance(arg, ast.Name):
        return None
    if arg.id in ("_tooler", "_untooler"):
        return arg.id
    cur = getattr(at, "_parent", None)
    while cur is not None:
        if isinstance(cur, (ast.FunctionDef, ast.AsyncFunctionDef)):
            for n in ast.walk(cur):
                if isinstance(n, ast.FunctionDef) and n.name == arg.id and n is not cur:
                    called = {c.func.id for c in ast.walk(n) if isinstance(c, ast.Call) and isinstance(c.func, ast.Name)}
                    if "_tooler" in called and "_untooler" not in called:
                        return "_tooler"
                    if "_untooler" in called and "_tooler" not in called:
                        return "_untooler"
        cur = getattr(cur, "_parent", None)
    return None


def classify_call(call, ctxvars):
    """-> list of (resource, 'acq'|'rel', detail) for one Call node."""
    out = []
    f = call.func
    d = dotted(f) or ""
    last = f.attr if isinstance(f, ast.Attribute) else (f.id if isinstance(f, ast.Name) else "")
    recv = norm(f.value) if isinstance(f, ast.Attribute) else ""
    if last == "wrap_functions" and call.args:
        a = _wrapper_role(call.args[0], call)
        if a == "_tooler":
            out.append(("tooling", "acq", f"wrap_functions({norm(call.args[0])}): one push per selector level"))
        elif a == "_untooler":
            out.append(("tooling", "rel", f"wrap_functions({norm(call.args[0])}): one pop per selector level"))
    elif last == "_tooler" and isinstance(f, ast.Name):
        out.append(("tooling", "acq", "_tooler(fn, captures)"))
    elif last == "_untooler" and isinstance(f, ast.Name):
        out.append(("tooling", "rel", "_untooler(fn, captures)"))
    elif last == "autotool":
        undo = kwarg(call, "undo")
        if undo is None and len(call.args) >= 2:
            undo = call.args[1]
        if undo is not None and isinstance(undo, ast.Constant) and undo.value is True:
            out.append(("tooling", "rel", "autotool(undo=True)"))
        elif undo is None or (isinstance(undo, ast.Constant) and not undo.value):
            out.append(("tooling", "acq", "autotool"))
    elif last == "_install_tooling":
        out.append(("tooling", "acq", "_install_tooling"))
    elif last == "_uninstall_tooling":
        out.append(("tooling", "rel", "_uninstall_tooling"))
    elif last == "push" and not call.keywords and len(call.args) == 1:
        out.append(("stack", "acq", f"{recv}.push"))
    elif last == "pop" and len(call.args) == 1 and not isinstance(call.args[0], ast.Constant) and recv != "glb":
        out.append(("stack", "rel", f"{recv}.pop"))
    elif last in ("add",) and recv.endswith("global_probes"):
        out.append(("global_probes", "acq", "global_probes.add"))
    elif last in ("remove", "discard") and recv.endswith("global_probes"):
        out.append(("global_probes", "rel", f"global_probes.{last}"))
    elif last == "__enter__" and not call.args:
        out.append((f"context:{recv}", "acq", f"{recv}.__enter__()"))
    elif last == "__exit__":
        out.append((f"context:{recv}", "rel", f"{recv}.__exit__()"))
    elif last == "set" and any(recv.endswith(cv) for cv in ctxvars):
        out.append((f"ctxvar:{[cv for cv in ctxvars if recv.endswith(cv)][0]}", "acq", f"{recv}.set"))
    elif last == "reset" and any(recv.endswith(cv) for cv in ctxvars):
        out.append((f"ctxvar:{[cv for cv in ctxvars if recv.endswith(cv)][0]}", "rel", f"{recv}.reset"))
    return out


def classify_stmt(stmt, ctxvars, wrap_param=None):
    """Resources acquired/released by one statement (CFG node granularity)."""
    out = []
    if isinstance(stmt, ast.AugAssign) and isinstance(stmt.value, ast.Constant) and stmt.value.value == 1:
        t = norm(stmt.target)
        kind = "acq" if isinstance(stmt.op, ast.Add) else "rel" if isinstance(stmt.op, ast.Sub) else None
        if kind and t.endswith(".instrument_count"):
            out.append(("instrument_count", kind, t))
        elif kind and ".captures[" in t:
            out.append(("capture_count", kind, t))
    nodes = [stmt] if not isinstance(stmt, (ast.FunctionDef, ast.AsyncFunctionDef, ast.ClassDef)) else []
    for root in nodes:
        for n in ast.walk(root):
            if isinstance(n, ast.Call):
                out += classify_call(n, ctxvars)
                if wrap_param and isinstance(n.func, ast.Name) and n.func.id == wrap_param:
                    out.append(("tooling(element)", "acq", f"{wrap_param}(...) applied to one selector level"))
    return out


def node_probe(n):
    """The AST fragment a CFG node actually evaluates (test of an if, iterable of a for, context expr of a with)."""
    s = n.stmt
    if n.kind == "test":
        return ast.Expr(value=s.test)
    if n.kind == "for":
        return ast.Expr(value=s.iter)
    if n.kind == "with_enter":
        return ast.Expr(value=s.context_expr)
    if n.kind in ("with_exit", "handler", "dispatch", "finally", "match"):
        return None
    return s


def _loop_iter_of(stmt):
    cur = getattr(stmt, "_parent", None)
    while cur is not None and not isinstance(cur, (ast.FunctionDef, ast.AsyncFunctionDef, ast.Lambda)):
        if isinstance(cur, ast.For):
            return cur
        cur = getattr(cur, "_parent", None)
    return None


def is_partial_acquire(detail):
    """Traversals that apply an acquiring wrapper level by level can fail half-way: their own exception edge needs a rollback too."""
    return detail.startswith("wrap_functions(") or detail.startswith("traversal:")


def rollback_findings(fi, cg, ctxvars, wrap_param=None):
    """R05.1 kernel: after an acquire in `fi`, every path to the exceptional exit passes a release of that resource.
    -> (acquire sites analysed, findings [(resource, acquire text, raising statement text, path)])"""
    g = CFG(fi.node, cg.stmt_may_raise(fi))
    sites, findings = 0, []
    cls = {}
    for n in g.nodes:
        pr = node_probe(n) if n.stmt is not None else None
        cls[n.id] = classify_stmt(pr, ctxvars, wrap_param) if pr is not None else []
    for n in g.nodes:
        for res, kind, detail in cls[n.id]:
            if kind != "acq":
                continue
            sites += 1
            rel = [m for m in g.nodes if any(r == res and k == "rel" for r, k, _ in cls[m.id])]
            # `for x in journal: release(x)` is one release unit: zero iterations <=> nothing was acquired
            for m in list(rel):
                lp = _loop_iter_of(m.stmt) if m.stmt is not None else None
                if lp is not None:
                    rel += [x for x in g.nodes if x.kind == "for" and x.stmt is lp and x not in rel]
            partial = is_partial_acquire(detail)
            # leave the acquire by its normal edges (its own failure is the callee's responsibility, unless it is a
            # level-by-level traversal that may have acquired part of the resource before failing)
            starts = [m for m, lab in n.succ if lab != "e" or partial]
            reach = set()
            for s in starts:
                if s in rel:
                    continue
                reach |= {s.id} | g.reach([s], avoid=rel)
            if g.raise_exit.id not in reach:
                continue
            culprits = []
            cand = [m for m in g.nodes if m.id in reach and m.stmt is not None and m.kind != "finally"]
            if partial:
                cand.insert(0, n)
            for m in cand:
                es = [x for x, l in m.succ if l == "e"]
                if not es or m in culprits:
                    continue
                tgt = {x.id for x in es if x not in rel} | g.reach([x for x in es if x not in rel], avoid=rel)
                if g.raise_exit.id in tgt and (node_probe(m) is not None):
                    culprits.append(m)
            for m in culprits:
                path = g.witness_path(n, g.raise_exit, avoid=rel)
                findings.append((res, norm(node_probe(n))[:80], norm(node_probe(m))[:80], path))
    return sites, findings


def acquired_in(fn_node, ctxvars):
    out = {}
    for n in walk_local(fn_node):
        if isinstance(n, ast.stmt):
            pass
    for st in [x for x in walk_local(fn_node) if isinstance(x, (ast.Expr, ast.Assign, ast.AugAssign, ast.Return, ast.AnnAssign))]:
        for res, kind, detail in classify_stmt(st, ctxvars):
            out.setdefault((res, kind), []).append(st)
    return out


def released_on_all_normal_paths(fi, resource, ctxvars, cg=None, acq_loop_iter=None, cut_false_of=(), assume=()):
    """No path entry -> normal exit of `fi` that avoids every release of `resource`.

    acq_loop_iter: when the acquire sits in `for x in <iter>`, a release inside a loop over the same iterable pairs
    element by element, so that loop as a whole counts as the release.
    cut_false_of: texts of guards whose false branch is exempt (table in the rule, one reason each).
    assume: literal texts (astq.literals) known to hold on entry and not changed by the function: branches that contradict
    them are not taken (the release is owed only under the condition under which the acquire happened)."""
    g = CFG(fi.node, (cg.stmt_may_raise(fi) if cg else (lambda s: False)))
    rel = []
    for n in g.nodes:
        pr = node_probe(n) if n.stmt is not None else None
        if pr is not None and any(r == resource and k == "rel" for r, k, _ in classify_stmt(pr, ctxvars)):
            rel.append(n)
            loop = _loop_iter_of(n.stmt)
            if loop is not None and acq_loop_iter is not None and norm(loop.iter) == acq_loop_iter:
                rel += [m for m in g.nodes if m.kind == "for" and m.stmt is loop]
    if not rel:
        return False, None, 0
    cut = [n for n in g.nodes if n.kind == "test" and n.note in cut_false_of]
    for c in cut:
        c.succ = [(m, l) for m, l in c.succ if l != "f"]
    if assume:
        from .astq import literals
        for n in g.nodes:
            test = getattr(n.stmt, "test", None) if n.kind == "test" else None
            if test is None:
                continue
            pos, neg = literals(test, True), literals(test, False)
            if pos and set(pos) <= set(assume):
                n.succ = [(m, l) for m, l in n.succ if l != "f"]
            elif neg and set(neg) <= set(assume):
                n.succ = [(m, l) for m, l in n.succ if l != "t"]
    ok = not g.path_exists(g.entry, g.exit, avoid=rel, labels=("n", "t", "f"))
    path = None if ok else g.witness_path(g.entry, g.exit, avoid=rel, labels=("n", "t", "f"))
    return ok, path, len(rel)


def raising_before_release(fi, resource, ctxvars, cg):
    """Statements of `fi` that may raise (call-graph summary) and can run before any release of `resource`: if one of them
    raises, the function is left without releasing.  -> [statement text]"""
    pred = cg.stmt_may_raise(fi)
    g = CFG(fi.node, pred)
    rel = []
    for n in g.nodes:
        pr = node_probe(n) if n.stmt is not None else None
        if pr is not None and any(r == resource and k == "rel" for r, k, _ in classify_stmt(pr, ctxvars)):
            rel.append(n)
    if not rel:
        return ["<no release statement>"]
    out = []
    for n in g.nodes:
        if n in rel or n.stmt is None or n.kind not in ("stmt", "test", "for", "with_enter"):
            continue
        pr = node_probe(n)
        if pr is None or not pred(pr if isinstance(pr, ast.stmt) else ast.Expr(value=pr)):
            continue
        if g.path_exists(g.entry, n, avoid=rel):
            out.append(n.text()[:80])
    return out


def journal_findings(repo, fi, cg, ctxvars):
    """Journaled rollback (`for x in reversed(J): release(x)`): every `J.append(...)` must come after the acquire it records,
    otherwise a failing acquire is rolled back although it never completed (over-release).
    -> [(journal name, resource, append site text, ok, detail)]"""
    out = []
    fn = fi.node
    journals = {}
    for n in ast.walk(fn):
        if isinstance(n, ast.For):
            it = n.iter
            if isinstance(it, ast.Call) and isinstance(it.func, ast.Name) and it.func.id in ("reversed", "list", "tuple") and it.args:
                it = it.args[0]
            if isinstance(it, ast.Name):
                rels = [(r, d) for st in n.body for r, k, d in classify_stmt(st, ctxvars) if k == "rel"]
                if rels:
                    journals[it.id] = rels[0][0]
    if not journals:
        return out
    # appends may sit in the function itself or in a function nested in it (wrapper handed to a traversal)
    holders = [fi] + [f2 for f2 in repo.functions.values() if f2.parent is not None and f2.parent.qual == fi.qual]
    for h in holders:
        g = CFG(h.node, cg.stmt_may_raise(h))
        cls = {}
        for n in g.nodes:
            pr = node_probe(n) if n.stmt is not None else None
            cls[n.id] = classify_stmt(pr, ctxvars) if pr is not None else []
        for n in g.nodes:
            if n.kind != "stmt" or n.stmt is None:
                continue
            for c in ast.walk(n.stmt) if not isinstance(n.stmt, (ast.FunctionDef, ast.ClassDef)) else []:
                if isinstance(c, ast.Call) and isinstance(c.func, ast.Attribute) and c.func.attr == "append" and isinstance(c.func.value, ast.Name) \
                        and c.func.value.id in journals:
                    res = journals[c.func.value.id]
                    acq = [m for m in g.nodes if any(r == res and k == "acq" for r, k, _ in cls[m.id])]
                    loop = _loop_iter_of(n.stmt)
                    start = next((m for m in g.nodes if m.kind == "for" and m.stmt is loop), g.entry) if loop is not None else g.entry
                    # leave the loop head by its body edge only
                    ok = bool(acq) and not g.path_exists(start, n, avoid=acq, labels=("n", "t") if start is not g.entry else ("n", "t", "f"))
                    # and the acquire's own failure must not reach the append
                    for a in acq:
                        es = [x for x, l in a.succ if l == "e"]
                        if es and n.id in ({x.id for x in es} | g.reach(es, avoid=[])) and not g.path_exists(a, n, labels=("n", "t", "f")):
                            pass
                    out.append((c.func.value.id, res, f"{c.func.value.id}.append()", ok,
                                "" if ok else f"`{norm(n.stmt)[:60]}` in {h.qual} can run before the acquire it records has completed: "
                                              f"the rollback then releases {res} once more than was acquired"))
    # what is journaled is what was acquired, and the rollback hands it back in the same roles:
    #   acquire A(x, y) ... J.append(<x or (x, y)>) ... for <x or (x, y)> in reversed(J): R(x, y)
    for n in ast.walk(fn):
        if not isinstance(n, ast.For):
            continue
        it = n.iter
        if isinstance(it, ast.Call) and isinstance(it.func, ast.Name) and it.func.id in ("reversed", "list", "tuple") and it.args:
            it = it.args[0]
        if not (isinstance(it, ast.Name) and it.id in journals):
            continue
        j = it.id
        tvars = [norm(e) for e in n.target.elts] if isinstance(n.target, (ast.Tuple, ast.List)) else [norm(n.target)]
        rel_calls = [c for st in n.body for c in ast.walk(st) if isinstance(c, ast.Call) and any(k == "rel" for r, k, d in classify_stmt(ast.Expr(value=c), ctxvars))]
        entries = []
        for h in holders:
            for c in ast.walk(h.node):
                if isinstance(c, ast.Call) and isinstance(c.func, ast.Attribute) and c.func.attr == "append" and isinstance(c.func.value, ast.Name) and c.func.value.id == j and len(c.args) == 1:
                    e = c.args[0]
                    comps = [norm(x) for x in e.elts] if isinstance(e, ast.Tuple) else [norm(e)]
                    # the acquire that precedes the append in the same block
                    blk = getattr(c, "_parent", None)
                    while blk is not None and not isinstance(blk, ast.stmt):
                        blk = getattr(blk, "_parent", None)
                    acqs = [a for a in ast.walk(h.node) if isinstance(a, ast.Call) and a is not c and any(k == "acq" for r, k, d in classify_stmt(ast.Expr(value=a), ctxvars))]
                    entries.append((h, comps, acqs))
        for c in rel_calls:
            rargs = [norm(a) for a in c.args]
            ok = bool(entries) and rargs[:len(tvars)] == tvars
            detail = ""
            for h, comps, acqs in entries:
                if len(comps) != len(tvars):
                    ok, detail = False, f"the journal holds {comps} but the rollback unpacks {tvars}"
                elif acqs and not any([norm(a) for a in q.args][:len(comps)] == comps for q in acqs):
                    ok, detail = False, f"`{j}.append({', '.join(comps)})` does not record the arguments of the acquire it follows ({[norm(q)[:50] for q in acqs]})"
            if not ok and not detail:
                detail = f"the rollback calls `{norm(c)[:60]}` although an entry of `{j}` is {tvars}: the release gets its arguments in other roles than the acquire"
            out.append((j, journals[j], f"rollback:{call_name(c)}", ok, detail))
    for j, res in journals.items():
        if not any(o[0] == j for o in out):
            out.append((j, res, f"{j}.append(...)", False,
                        f"the rollback loop of {fi.qual} iterates over `{j}` but nothing is ever appended to it: the rollback releases nothing"))
    return out
