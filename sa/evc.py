"""Effect table of ptera's name collector (the NodeVisitor that fills used / assigned / provenance) and its
verdict on each row of the Python binding table.  Read from the source; the collector is never run."""
import ast

from .core import AnalysisError, norm, walk_local
from . import pybinding


class Handler:
    def __init__(self, fn):
        self.fn = fn
        self.name = fn.name
        self.traverse_all = False       # self.generic_visit(node)
        self.traverse_all_guard = None
        self.traverse_fields = set()    # self.visit(node.f) / loops over node.f
        self.delegates = []             # self.visit_X(node)
        self.helper_calls = []          # self.helper(args...)  (non-visit methods of the class)
        self.adds = []                  # (set name, expr text, guard text)
        self.prov = []                  # (key expr text, label, guard text)
        self._read()

    def _guards(self, n):
        """Path conditions (astq.conds: nesting, guard clauses and polarity normalised), joined by ' && '."""
        from .astq import conds
        return " && ".join(conds(n, self.fn))

    def _read(self):
        gv_calls = []
        self._read_body(gv_calls)
        if gv_calls and not self.traverse_all:
            # guarded everywhere, but on EVERY path? (`if name is None: generic_visit; return` / `...; generic_visit`)
            from .cfg import CFG
            g = CFG(self.fn, lambda s: False)
            marks = [n for n in g.nodes if n.stmt is not None and n.kind == "stmt" and any(c in list(ast.walk(n.stmt)) for c in gv_calls)]
            if marks and not g.path_exists(g.entry, g.exit, avoid=marks, labels=("n", "t", "f")):
                self.traverse_all = True
                self.traverse_all_guard = None

    def _read_body(self, gv_calls):
        for n in walk_local(self.fn):
            if isinstance(n, ast.Call) and isinstance(n.func, ast.Attribute) and isinstance(n.func.value, ast.Name) and n.func.value.id == "self":
                if n.func.attr == "generic_visit":
                    g = self._guards(n)
                    if g:
                        self.traverse_all_guard = g      # children are only walked under a condition: whatever is bound inside them is missed otherwise
                    else:
                        self.traverse_all = True
                    gv_calls.append(n)
                elif n.func.attr == "visit" and n.args:
                    a = n.args[0]
                    if isinstance(a, ast.Attribute) and isinstance(a.value, ast.Name):
                        self.traverse_fields.add(a.attr)
                elif n.func.attr.startswith("visit_"):
                    self.delegates.append(n.func.attr)
                else:
                    self.helper_calls.append((n.func.attr, [norm(a) for a in n.args]))
            if isinstance(n, ast.For) and isinstance(n.iter, ast.Attribute) and isinstance(n.iter.value, ast.Name) and isinstance(n.target, ast.Name):
                # for child in node.field: self.visit(child)
                if any(isinstance(c, ast.Call) and isinstance(c.func, ast.Attribute) and isinstance(c.func.value, ast.Name) and c.func.value.id == "self"
                       and c.func.attr == "visit" and c.args and isinstance(c.args[0], ast.Name) and c.args[0].id == n.target.id for c in ast.walk(n)):
                    self.traverse_fields.add(n.iter.attr)
            if isinstance(n, ast.Call) and isinstance(n.func, ast.Attribute) and n.func.attr == "add" and isinstance(n.func.value, ast.Attribute) \
                    and isinstance(n.func.value.value, ast.Name) and n.func.value.value.id == "self" and n.args:
                self.adds.append((n.func.value.attr, norm(n.args[0]), self._guards(n)))
            if isinstance(n, ast.Assign) and isinstance(n.targets[0], ast.Subscript) and norm(n.targets[0].value) == "self.provenance" \
                    and isinstance(n.value, ast.Constant):
                self.prov.append((norm(n.targets[0].slice), n.value.value, self._guards(n)))
            # the non-overwriting form: self.provenance.setdefault(<name>, <label>) labels the name unless it already has a provenance
            if isinstance(n, ast.Call) and norm(n.func) == "self.provenance.setdefault" and len(n.args) == 2 and isinstance(n.args[1], ast.Constant) and not n.keywords:
                self.prov.append((norm(n.args[0]), n.args[1].value, self._guards(n)))


class Collector:
    def __init__(self, repo):
        tree = repo.module("transform").tree
        self.cls = None
        for n in tree.body:
            if isinstance(n, ast.ClassDef) and any(isinstance(b, ast.Name) and b.id == "NodeVisitor" for b in n.bases):
                if any(isinstance(s, ast.Attribute) and s.attr == "assigned" and isinstance(s.ctx, ast.Store) for s in ast.walk(n)):
                    self.cls = n
        if self.cls is None:
            raise AnalysisError("anchor vanished: the name collector (NodeVisitor filling `assigned`) in transform.py")
        self.handlers = {m.name: Handler(m) for m in self.cls.body if isinstance(m, ast.FunctionDef) and m.name.startswith("visit_")}
        for n in self.cls.body:          # class-level aliases: visit_AsyncFunctionDef = visit_FunctionDef
            if isinstance(n, ast.Assign) and isinstance(n.value, ast.Name) and n.value.id in self.handlers:
                for t in n.targets:
                    if isinstance(t, ast.Name) and t.id.startswith("visit_"):
                        self.handlers[t.id] = self.handlers[n.value.id]
        self.helpers = {m.name: Handler(m) for m in self.cls.body if isinstance(m, ast.FunctionDef) and not m.name.startswith(("visit_", "__"))}
        self.init = next((m for m in self.cls.body if isinstance(m, ast.FunctionDef) and m.name == "__init__"), None)

    def handler_for(self, cls):
        return self.handlers.get(f"visit_{cls}")

    def effective(self, h, seen=()):
        """Handler with delegations folded in."""
        adds, prov, tall, tf = list(h.adds), list(h.prov), h.traverse_all, set(h.traverse_fields)
        import re
        for hname, args in h.helper_calls:
            hh = self.helpers.get(hname)
            if hh is None or hname in seen:
                continue
            params = [a.arg for a in hh.fn.args.args][1:]
            sub = dict(zip(params, args))

            def subst(txt):
                for p_, a_ in sub.items():
                    txt = re.sub(rf"\b{re.escape(p_)}\b", a_, txt)
                return txt
            a2, p2, t2, f2 = self.effective(hh, seen + (hname,))
            adds += [(sn, subst(e), subst(g)) for sn, e, g in a2]
            prov += [(subst(k), lab, subst(g)) for k, lab, g in p2]
            tall = tall or t2
            tf |= f2
        for d in h.delegates:
            if d in self.handlers and d not in seen:
                a2, p2, t2, f2 = self.effective(self.handlers[d], seen + (h.name,))
                adds += a2
                prov += p2
                tall = tall or t2
                tf |= f2
        return adds, prov, tall, tf

    def traverses(self, cls, field):
        h = self.handler_for(cls)
        if h is None:
            return True            # NodeVisitor.generic_visit
        adds, prov, tall, tf = self.effective(h)
        return tall or field in tf

    # ------------------------------------------------------------------ verdict per binding row
    def verdict(self, row):
        """-> dict(recorded, provenance, blocked_by, how)"""
        rid, how, cls, body, local, expected_prov = row
        src = pybinding.snippet(row)
        tree = ast.parse(src)
        for parent in ast.walk(tree):
            for child in ast.iter_child_nodes(parent):
                child._parent = parent
                for f, v in ast.iter_fields(parent):
                    if v is child or (isinstance(v, list) and any(x is child for x in v)):
                        child._field = f
        want = "os" if rid == "import-dotted" else "v"
        # locate the binding node: the function f is the root the collector is started on
        def find_f(n):
            for x in ast.walk(n):
                if isinstance(x, ast.FunctionDef) and x.name == "f":
                    return x
        froot = find_f(tree)
        target = None
        for n in ast.walk(froot):
            if how.startswith("Name") and isinstance(n, ast.Name) and n.id == want and not isinstance(n.ctx, ast.Load):
                target = target or n
            elif how == "arg" and isinstance(n, ast.arg) and n.arg == want:
                target = n
            elif how == "identifier field" and type(n).__name__ == cls:
                vals = [getattr(n, f, None) for f, t, q in pybinding.ASDL.get(cls, []) if t == "identifier"]
                names = []
                for v in vals:
                    names += v if isinstance(v, list) else [v]
                if cls in ("Import", "ImportFrom"):
                    names = [(a.asname or a.name).split(".")[0] for a in n.names]
                if want in names and n is not froot:
                    target = n
        if target is None:
            raise AnalysisError(f"binding row {rid}: binding node not found in its snippet")
        # is the node reached by the traversal?
        blocked = None
        cur = target
        while cur is not froot:
            par = cur._parent
            pcls = type(par).__name__
            if par is froot:
                pcls = "FunctionDef"
            if not self.traverses(pcls, getattr(cur, "_field", "?")):
                blocked = f"visit_{pcls} does not traverse `{getattr(cur, '_field', '?')}`"
            cur = par
        tcls = type(target).__name__
        h = self.handler_for(tcls)
        recorded, prov, via = False, None, None
        funcname = False
        if h is not None:
            adds, provs, tall, tf = self.effective(h)
            funcname = any(sn == "funcnames" for sn, e_, g_ in adds)
            for setname, expr, guard in adds:
                if setname != "assigned":
                    continue
                # the bound name is never None here: a guard `<expr> is None` / `not (<expr> is not None)` means "not recorded"
                lits = set(guard.split(" && ")) if guard else set()
                if f"{expr} is None" in lits or f"not {expr}" in lits:
                    continue
                if tcls == "Name" and "isinstance(node.ctx, ast.Load)" in lits:
                    continue         # the Load branch
                recorded = True
                via = f"{h.name}: self.assigned.add({expr})"
                for key, label, g in provs:
                    if key == expr:
                        prov = label
        if rid == "import-dotted" and recorded and h is not None:
            # `import a.b` binds `a`: the handler must reduce the alias name to its first component
            def first_component(n):
                """<name>.split(".")[0] / .split(".", 1)[0] / .partition(".")[0]: the index matters as much as the split"""
                return isinstance(n, ast.Subscript) and isinstance(n.slice, ast.Constant) and n.slice.value == 0 and isinstance(n.value, ast.Call) \
                    and isinstance(n.value.func, ast.Attribute) and n.value.func.attr in ("split", "partition") and n.value.args \
                    and isinstance(n.value.args[0], ast.Constant) and n.value.args[0].value == "."
            if not any(first_component(n) for hh in [h] + [self.handlers[d] for d in h.delegates if d in self.handlers] for n in ast.walk(hh.fn)):
                recorded, via = False, (via or "") + " (the dotted module path is recorded instead of its first component)"
        return {"recorded": recorded and blocked is None, "provenance": prov if recorded and blocked is None else None,
                "blocked_by": blocked, "via": via, "handler": h.name if h else None, "class": tcls,
                "funcname": funcname and blocked is None}
